// Conformance driver of the "extras" suite (spec/extras/*.tla): components of
// rkcommon no listed property talks about.  One World per history; the history's
// "comp" key selects the component, every component has its own object pool:
//
//   comp = "lib"    os/library.h            LibraryRepository + directly constructed Library objects
//   comp = "scope"  utility/OnScopeExit.h   real C++ scopes, interpreted on a coroutine thread
//   comp = "dbuf"   utility/DoubleBufferedValue.h
//   comp = "dptr"   memory/DeletedUniquePtr.h
//   comp = "timer"  utility/CodeTimer.h     (times are reported, never judged here)
//
// The driver performs the actions on the real code and reports observations.  It
// decides nothing: expected values come from TLC (state graph) or the recorded
// observations are validated by TLC (trace specifications).
#include <dlfcn.h>
#include <unistd.h>
#include <chrono>
#include <cmath>
#include <condition_variable>
#include <functional>
#include <map>
#include <memory>
#include <mutex>
#include <set>
#include <stdexcept>
#include <string>
#include <thread>
#include <vector>
#include "driver.h"
#include "rkcommon/memory/DeletedUniquePtr.h"
#include "rkcommon/os/library.h"
#include "rkcommon/utility/CodeTimer.h"
#include "rkcommon/utility/DoubleBufferedValue.h"
#include "rkcommon/utility/OnScopeExit.h"

using vj::Json;

struct IWorld
{
  virtual ~IWorld() {}
  virtual Json step(const Json &act) = 0;
};

// ---------------------------------------------------------------------------
// LibraryRepository / Library
// ---------------------------------------------------------------------------
static std::vector<std::pair<int, int>> g_vxEvents; // (library id, 1 = constructor ran / 2 = destructor ran)

extern "C" __attribute__((visibility("default"), used)) void vx_event(int id, int kind)
{
  g_vxEvents.push_back(std::make_pair(id, kind));
}

static const char *const VX_NAMES[] = {"?", "vx_a", "vx_b", "vx_c", "vx_d"};

static std::string exeDir()
{
  char buf[4096];
  ssize_t n = readlink("/proc/self/exe", buf, sizeof buf - 1);
  if (n <= 0) return std::string("./");
  buf[n] = 0;
  std::string p(buf);
  return p.substr(0, p.find_last_of('/') + 1);
}

static void anchorHere() {}

struct LibWorld : IWorld
{
  std::string dir;
  std::vector<std::string> files; // index = library id
  std::vector<rkcommon::Library *> direct;
  int stackCell = 0;

  LibWorld() : dir(exeDir())
  {
    rkcommon::LibraryRepository::cleanupInstance();
    files.push_back("");
    files.push_back(dir + "libvx_a.so");
    files.push_back(dir + "libvx_b.so");
    files.push_back(dir + "libvx_c.so.1.2");
    files.push_back(dir + "sub/libvx_d.so");
    direct.assign(4, nullptr);
    g_vxEvents.clear();
  }
  ~LibWorld() override
  {
    for (auto *l : direct) delete l;
    rkcommon::LibraryRepository::cleanupInstance();
  }

  const void *anchor(const std::string &a)
  {
    if (a == "exe") return (const void *)&anchorHere; // an address inside the driver executable
    if (a == "heap") return (const void *)&stackCell; // an address that belongs to no file (this World lives on the heap)
    return nullptr;
  }

  static rkcommon::Library::Version version(const Json &v)
  {
    rkcommon::Library::Version out;
    for (size_t i = 0; i < v.size(); ++i) out.push_back((int)v[i].num());
    return out;
  }

  bool isLoaded(int id) const
  {
    void *h = dlopen(files[id].c_str(), RTLD_LAZY | RTLD_NOLOAD);
    if (!h) return false;
    dlclose(h);
    return true;
  }

  // which object does the address belong to: a fixture library (then the function is called and must name itself), or something else
  static Json classify(void *p, const std::string &sym)
  {
    if (!p) return Json("null");
    Dl_info info;
    std::string base;
    if (dladdr(p, &info) && info.dli_fname) {
      base = info.dli_fname;
      size_t s = base.find_last_of('/');
      if (s != std::string::npos) base = base.substr(s + 1);
    }
    if (base.compare(0, 6, "libvx_") != 0) return Json("dep");
    int r = ((int (*)())p)();
    int id = sym == "vx_common" ? r : r / 11;
    if (id < 1 || id > 4) return Json("bad-id:" + std::to_string(r));
    std::string tag = std::string("libvx_") + VX_NAMES[id][3];
    if (base.compare(0, tag.size(), tag) != 0) return Json("address in " + base + " but function answered " + VX_NAMES[id]);
    return Json(VX_NAMES[id]);
  }

  Json step(const Json &act) override
  {
    const std::string &a = act["a"].str();
    const Json &arg = act["arg"];
    Json o = Json::object();
    g_vxEvents.clear();
    auto *repo = rkcommon::LibraryRepository::getInstance();
    if (a == "Add") {
      try {
        repo->add(anchor(arg["anchor"].str()), arg["name"].str(), version(arg["ver"]));
        o.set("ret", "void");
      } catch (const std::runtime_error &) {
        o.set("ret", "throws:runtime_error");
      } catch (const std::exception &) {
        o.set("ret", "throws:other");
      }
    } else if (a == "Remove") {
      repo->remove(arg["name"].str());
      o.set("ret", "void");
    } else if (a == "Exists") {
      o.set("ret", repo->libraryExists(arg["name"].str()));
    } else if (a == "GetSymbol") {
      o.set("ret", classify(repo->getSymbol(arg["sym"].str()), arg["sym"].str()));
    } else if (a == "Cleanup") {
      rkcommon::LibraryRepository::cleanupInstance();
      o.set("ret", "void");
    } else if (a == "LibNew") {
      size_t s = (size_t)arg["slot"].num() - 1;
      try {
        rkcommon::Library *l = new rkcommon::Library(anchor(arg["anchor"].str()), arg["name"].str(), version(arg["ver"]));
        delete direct.at(s);
        direct.at(s) = l;
        o.set("ret", "void");
      } catch (const std::runtime_error &) {
        o.set("ret", "throws:runtime_error");
      } catch (const std::exception &) {
        o.set("ret", "throws:other");
      }
    } else if (a == "LibDelete") {
      size_t s = (size_t)arg["slot"].num() - 1;
      delete direct.at(s);
      direct.at(s) = nullptr;
      o.set("ret", "void");
    } else if (a == "LibGetSymbol") {
      size_t s = (size_t)arg["slot"].num() - 1;
      if (direct.at(s)) o.set("ret", classify(direct.at(s)->getSymbol(arg["sym"].str()), arg["sym"].str()));
      else o.set("ret", "no-object");
    } else {
      o.set("ret", "unknown action " + a);
    }
    Json ctors = Json::array(), dtors = Json::array();
    for (auto &e : g_vxEvents) {
      const char *nm = (e.first >= 1 && e.first <= 4) ? VX_NAMES[e.first] : "?";
      (e.second == 1 ? ctors : dtors).push(Json(nm));
    }
    o.set("ctors", ctors);
    o.set("dtors", dtors);
    // queries below go through the instance again (a fresh, empty repository after Cleanup)
    repo = rkcommon::LibraryRepository::getInstance();
    Json ex = Json::object();
    static const char *const names[] = {"vx_a", "vx_b", "vx_c", "vx_d", "vx_none"};
    for (auto *n : names) ex.set(n, repo->libraryExists(n));
    o.set("exists", ex);
    Json ld = Json::object();
    for (int id = 1; id <= 4; ++id) ld.set(VX_NAMES[id], isLoaded(id));
    o.set("loaded", ld);
    return o;
  }
};

// ---------------------------------------------------------------------------
// OnScopeExit: the history is a program over nested scopes.  It is interpreted
// on a second thread used as a coroutine (strict hand-over, never concurrent),
// so that scopes are real C++ scopes: a scope is a chain of stack frames with
// one guard each, Close returns through them, Throw unwinds them with a real
// exception.
// ---------------------------------------------------------------------------
using rkcommon::utility::OnScopeExit;

struct ScopeWorld : IWorld
{
  struct Unwind
  {
    int k;
  };
  struct EndAll
  {
  };

  std::mutex m;
  std::condition_variable cv;
  bool haveAct = false, haveObs = false, inProgress = false, finished = false;
  Json act, obs;
  std::string outcome;
  std::vector<int> events; // function ids in the order they ran; -1: the catch handler was entered
  int depth = 0;
  std::thread th;

  ScopeWorld() { th = std::thread([this] { top(); }); }
  ~ScopeWorld() override
  {
    Json e = Json::object();
    e.set("a", "End");
    {
      std::unique_lock<std::mutex> lk(m);
      act = e;
      haveAct = true;
      cv.notify_all();
    }
    th.join();
  }

  void ran(int id) { events.push_back(id); }

  Json makeObs()
  {
    Json o = Json::object();
    Json r = Json::array(), late = Json::array();
    bool after = false;
    for (int e : events) {
      if (e == -1) after = true;
      else (after ? late : r).push(Json(e));
    }
    o.set("outcome", outcome);
    o.set("ran", r);
    o.set("late", late);
    o.set("depth", depth);
    return o;
  }

  // coroutine side: deliver the observation of the action in progress, wait for the next action
  Json fetch()
  {
    std::unique_lock<std::mutex> lk(m);
    if (inProgress) {
      obs = makeObs();
      haveObs = true;
      inProgress = false;
      cv.notify_all();
    }
    cv.wait(lk, [&] { return haveAct; });
    haveAct = false;
    inProgress = true;
    events.clear();
    outcome = "ok";
    return act;
  }

  // One scope.  Returns when the scope is closed; propagates Unwind / EndAll.
  // `made` holds the guards constructed in this scope so far (sources of copies).
  void scope(std::vector<const OnScopeExit *> &made)
  {
    for (;;) {
      Json a = fetch();
      const std::string &k = a["a"].str();
      const Json &arg = a["arg"];
      if (k == "Open") {
        ++depth;
        try {
          std::vector<const OnScopeExit *> inner;
          scope(inner);
          --depth;
        } catch (Unwind &u) {
          --depth;
          if (--u.k > 0) throw;
          events.push_back(-1); // handler entered: everything that had to run has run
          outcome = "caught";
        }
      } else if (k == "Guard") {
        int id = (int)arg["id"].num();
        if (arg["kind"].str() == "lambda") {
          OnScopeExit g([this, id]() { ran(id); });
          made.push_back(&g);
          scope(made);
          return;
        } else {
          std::function<void()> f = [this, id]() { ran(id); };
          OnScopeExit g(f);
          made.push_back(&g);
          scope(made);
          return;
        }
      } else if (k == "Empty") {
        std::function<void()> f; // empty
        OnScopeExit g(f);
        made.push_back(&g);
        scope(made);
        return;
      } else if (k == "Copy") {
        const OnScopeExit &src = *made.at((size_t)arg["j"].num() - 1);
        OnScopeExit g(src); // the implicit copy constructor (only a const lvalue selects it)
        made.push_back(&g);
        scope(made);
        return;
      } else if (k == "Close") {
        return;
      } else if (k == "Throw") {
        throw Unwind{(int)arg["k"].num()};
      } else if (k == "End") {
        throw EndAll();
      } else {
        outcome = "unknown action " + k;
      }
    }
  }

  void top()
  {
    try {
      for (;;) {
        std::vector<const OnScopeExit *> none;
        scope(none); // depth 0: Close / Guard are not enabled here, the specification never sends them
      }
    } catch (EndAll &) {
    } catch (Unwind &) {
    }
    std::unique_lock<std::mutex> lk(m);
    finished = true;
    if (inProgress) {
      obs = makeObs();
      haveObs = true;
      inProgress = false;
    }
    cv.notify_all();
  }

  Json step(const Json &a) override
  {
    std::unique_lock<std::mutex> lk(m);
    if (finished) {
      Json o = Json::object();
      o.set("outcome", "interpreter-ended");
      return o;
    }
    act = a;
    haveAct = true;
    cv.notify_all();
    // the observation of action k is delivered when the interpreter asks for action k+1
    // (i.e. after everything action k caused has happened); to get it now, wait until the
    // interpreter is blocked in fetch() again
    cv.wait(lk, [&] { return haveObs || finished; });
    haveObs = false;
    return obs;
  }
};

// ---------------------------------------------------------------------------
// DoubleBufferedValue
// ---------------------------------------------------------------------------
struct Val
{
  int v{0};
};

struct DbufWorld : IWorld
{
  rkcommon::utility::DoubleBufferedValue<Val> d;
  std::vector<Val *> refs;
  size_t nrefs;
  explicit DbufWorld(size_t n) : nrefs(n) { refs.assign(n, nullptr); }

  Json step(const Json &act) override
  {
    const std::string &a = act["a"].str();
    const Json &arg = act["arg"];
    Json o = Json::object();
    if (a == "WriteFront") {
      d.front().v = (int)arg["v"].num();
      o.set("ret", "void");
    } else if (a == "WriteBack") {
      d.back().v = (int)arg["v"].num();
      o.set("ret", "void");
    } else if (a == "ReadFront") {
      o.set("ret", d.front().v);
    } else if (a == "ReadBack") {
      o.set("ret", d.back().v);
    } else if (a == "Swap") {
      d.swap();
      o.set("ret", "void");
    } else if (a == "TakeRef") {
      size_t r = (size_t)arg["r"].num() - 1;
      refs.at(r) = arg["side"].str() == "front" ? &d.front() : &d.back();
      o.set("ret", "void");
    } else if (a == "WriteRef") {
      size_t r = (size_t)arg["r"].num() - 1;
      if (refs.at(r)) {
        refs.at(r)->v = (int)arg["v"].num();
        o.set("ret", "void");
      } else o.set("ret", "unbound");
    } else if (a == "ReadRef") {
      size_t r = (size_t)arg["r"].num() - 1;
      if (refs.at(r)) o.set("ret", refs.at(r)->v);
      else o.set("ret", "unbound");
    } else {
      o.set("ret", "unknown action " + a);
    }
    const rkcommon::utility::DoubleBufferedValue<Val> &c = d;
    o.set("front", d.front().v);
    o.set("back", d.back().v);
    o.set("cfront", c.front().v);
    o.set("cback", c.back().v);
    o.set("distinct", &d.front() != &d.back());
    o.set("caddr", &c.front() == &d.front() && &c.back() == &d.back());
    Json rs = Json::array();
    for (size_t r = 0; r < nrefs; ++r) {
      if (!refs[r]) rs.push(Json("none"));
      else if (refs[r] == &d.front()) rs.push(Json("front"));
      else if (refs[r] == &d.back()) rs.push(Json("back"));
      else rs.push(Json("other"));
    }
    o.set("refs", rs);
    return o;
  }
};

// ---------------------------------------------------------------------------
// DeletedUniquePtr
// ---------------------------------------------------------------------------
struct Obj
{
  static int alive;
  int id, v;
  Obj(int i, int vv) : id(i), v(vv) { ++alive; }
  ~Obj() { --alive; }
};
int Obj::alive = 0;

struct DptrWorld : IWorld
{
  using Ptr = rkcommon::memory::DeletedUniquePtr<Obj>;
  struct Call
  {
    int d, o;
  };
  struct Del
  {
    int d;
    DptrWorld *w;
    void operator()(Obj *p) const
    {
      auto it = w->reg.find(p);
      w->calls.push_back(Call{d, p == nullptr ? 0 : (it == w->reg.end() ? -1 : it->second)});
      if (it != w->reg.end()) {
        w->reg.erase(it);
        delete p;
      }
    }
  };
  std::vector<Ptr *> slot;
  std::map<Obj *, int> reg; // live objects created here -> id
  std::vector<Obj *> released;
  std::vector<Call> calls;
  int nobj = 0;

  explicit DptrWorld(size_t nslots)
  {
    Obj::alive = 0;
    for (size_t i = 0; i < nslots; ++i) slot.push_back(new Ptr());
  }
  ~DptrWorld() override
  {
    for (auto *s : slot) delete s;
    for (auto *p : released) delete p;
  }

  Json step(const Json &act) override
  {
    const std::string &a = act["a"].str();
    const Json &arg = act["arg"];
    Json o = Json::object();
    calls.clear();
    if (a == "Make") {
      Ptr &s = *slot.at((size_t)arg["s"].num() - 1);
      int id = ++nobj;
      Ptr tmp = rkcommon::memory::make_deleted_unique<Obj>(Del{(int)arg["d"].num(), this}, id, (int)arg["v"].num());
      reg[tmp.get()] = id;
      s = std::move(tmp);
      o.set("ret", id);
    } else if (a == "ResetTo") {
      Ptr &s = *slot.at((size_t)arg["s"].num() - 1);
      int id = ++nobj;
      Obj *p = new Obj(id, (int)arg["v"].num());
      reg[p] = id;
      s.reset(p);
      o.set("ret", id);
    } else if (a == "ResetNone") { // reset() without argument ("Reset" is the separator of recorded executions)
      slot.at((size_t)arg["s"].num() - 1)->reset();
      o.set("ret", "void");
    } else if (a == "Release") {
      Obj *p = slot.at((size_t)arg["s"].num() - 1)->release();
      if (p) {
        auto it = reg.find(p);
        o.set("ret", it == reg.end() ? -1 : it->second);
        released.push_back(p);
      } else o.set("ret", 0);
    } else if (a == "Move") {
      Ptr &src = *slot.at((size_t)arg["from"].num() - 1);
      Ptr &dst = *slot.at((size_t)arg["to"].num() - 1);
      dst = std::move(src);
      o.set("ret", "void");
    } else if (a == "MoveConstruct") {
      // a new pointer is move-constructed from the source and takes the place of the destination slot object
      size_t f = (size_t)arg["from"].num() - 1, t = (size_t)arg["to"].num() - 1;
      Ptr *n = new Ptr(std::move(*slot.at(f)));
      delete slot.at(t); // the old destination pointer object dies (its deleter runs if it owns something)
      slot.at(t) = n;
      o.set("ret", "void");
    } else if (a == "Swap") {
      slot.at((size_t)arg["x"].num() - 1)->swap(*slot.at((size_t)arg["y"].num() - 1));
      o.set("ret", "void");
    } else if (a == "Destroy") {
      size_t s = (size_t)arg["s"].num() - 1;
      delete slot.at(s);
      slot.at(s) = new Ptr();
      o.set("ret", "void");
    } else if (a == "Get") {
      Ptr &s = *slot.at((size_t)arg["s"].num() - 1);
      if (s) {
        Json r = Json::array();
        auto it = reg.find(s.get());
        r.push(Json(it == reg.end() ? -1 : it->second));
        r.push(Json(s->v));
        o.set("ret", r);
      } else o.set("ret", 0);
    } else {
      o.set("ret", "unknown action " + a);
    }
    Json cs = Json::array();
    for (auto &c : calls) {
      Json r = Json::object();
      r.set("d", c.d);
      r.set("o", c.o);
      cs.push(r);
    }
    o.set("calls", cs);
    Json ss = Json::array();
    for (size_t i = 0; i < slot.size(); ++i) {
      Obj *p = slot[i]->get();
      auto it = reg.find(p);
      ss.push(Json(p == nullptr ? 0 : (it == reg.end() ? -1 : it->second)));
    }
    o.set("slots", ss);
    o.set("nalive", Obj::alive);
    return o;
  }
};

// ---------------------------------------------------------------------------
// CodeTimer.  Time stamps bracket every call: t0 is taken before, t1 after, both
// from the clock the timer uses; values are reported as [whole seconds, micro
// seconds] pairs (the clock's epoch may be days ago: micro seconds do not fit the
// 32-bit integers of TLC).  The trace specification does the arithmetic.
// ---------------------------------------------------------------------------
struct TimerWorld : IWorld
{
  rkcommon::utility::CodeTimer t;
  int quantumMs;
  explicit TimerWorld(int q) : quantumMs(q) {}

  static Json pairOfMicros(double us, bool up)
  {
    double w = up ? std::ceil(us) : std::floor(us);
    double s = std::floor(w / 1e6);
    Json p = Json::object();
    p.set("s", (long long)s);
    p.set("u", (long long)(w - s * 1e6));
    return p;
  }
  static Json stamp(bool up)
  {
    auto d = std::chrono::steady_clock::now().time_since_epoch();
    return pairOfMicros(std::chrono::duration<double, std::micro>(d).count(), up);
  }
  // a value in seconds -> class + pair (rounded to the nearest micro second)
  static void reportSeconds(Json &o, double sec)
  {
    if (std::isnan(sec)) { o.set("cls", "nan"); return; }
    if (std::isinf(sec)) { o.set("cls", sec > 0 ? "inf" : "-inf"); return; }
    o.set("cls", sec == 0.0 ? "zero" : (sec > 0 ? "pos" : "neg"));
    if (std::fabs(sec) < 2.0e9) {
      double us = std::floor(sec * 1e6 + 0.5);
      o.set("val", pairOfMicros(us, false));
    }
  }
  // a rate in 1/seconds -> class + hundredths
  static void reportRate(Json &o, double p)
  {
    if (std::isnan(p)) { o.set("cls", "nan"); return; }
    if (std::isinf(p)) { o.set("cls", p > 0 ? "inf" : "-inf"); return; }
    o.set("cls", p == 0.0 ? "zero" : (p > 0 ? "pos" : "neg"));
    if (std::fabs(p) < 2.0e7) o.set("pc", (long long)std::floor(p * 100.0 + 0.5));
  }

  Json step(const Json &act) override
  {
    const std::string &a = act["a"].str();
    Json o = Json::object();
    o.set("q", a);
    o.set("t0", stamp(false));
    if (a == "Start") t.start();
    else if (a == "Stop") t.stop();
    else if (a == "Sleep") std::this_thread::sleep_for(std::chrono::milliseconds(quantumMs));
    else if (a == "Seconds") reportSeconds(o, t.seconds());
    else if (a == "Milliseconds") reportSeconds(o, t.milliseconds() / 1000.0);
    else if (a == "PerSecond") reportRate(o, t.perSecond());
    else if (a == "SecondsSmoothed") reportSeconds(o, t.secondsSmoothed());
    else if (a == "MillisecondsSmoothed") reportSeconds(o, t.millisecondsSmoothed() / 1000.0);
    else if (a == "PerSecondSmoothed") reportRate(o, t.perSecondSmoothed());
    else o.set("cls", "unknown action " + a);
    o.set("t1", stamp(true));
    return o;
  }
};

// ---------------------------------------------------------------------------
struct World
{
  IWorld *w;
  std::string comp;
  World(const Json &hist) : w(nullptr), comp(hist["comp"].str())
  {
    if (comp == "lib") w = new LibWorld();
    else if (comp == "scope") w = new ScopeWorld();
    else if (comp == "dbuf") w = new DbufWorld(hist["nrefs"].isNull() ? 2 : (size_t)hist["nrefs"].num());
    else if (comp == "dptr") w = new DptrWorld(hist["nslots"].isNull() ? 2 : (size_t)hist["nslots"].num());
    else if (comp == "timer") w = new TimerWorld(hist["quantum_ms"].isNull() ? 2 : (int)hist["quantum_ms"].num());
  }
  ~World() { delete w; }
  Json step(const Json &act)
  {
    if (!w) {
      Json o = Json::object();
      o.set("ret", "unknown component " + comp);
      return o;
    }
    return w->step(act);
  }
};

int main(int argc, char **argv)
{
  return vdrv::run<World>(argc, argv);
}
