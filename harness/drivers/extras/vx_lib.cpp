// Fixture library of spec/extras/LibraryRepo.tla (built four times with
// different VX_ID / VX_ONLY).  Plain C interface, no C++ runtime features, so
// that dlclose really unloads the object.
#include <unistd.h>

extern "C" {
// defined by the driver executable (exported with -rdynamic); kind 1 = constructor, 2 = destructor
void vx_event(int id, int kind) __attribute__((weak));

__attribute__((visibility("default"))) int vx_common(void) { return VX_ID; }
__attribute__((visibility("default"))) int VX_ONLY(void) { return VX_ID * 11; }
}

namespace {
__attribute__((constructor)) void vx_init()
{
  (void)getpid(); // keeps libc a direct dependency of the object (dlsym on the handle also searches dependencies)
  if (vx_event) vx_event(VX_ID, 1);
}
__attribute__((destructor)) void vx_fini()
{
  if (vx_event) vx_event(VX_ID, 2);
}
}
