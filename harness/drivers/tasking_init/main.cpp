// Driver for the tasking-initialisation contract (property C13, spec/tasking/TaskingInit.tla).
//
// Interprets histories of  Init(n) / Query(from) / Loop(from, shape)  on the REAL
// rkcommon::tasking::initTaskingSystem / numTaskingThreads / parallel_for of the backend
// this binary was built with, and reports what it observed.  It decides nothing: the
// observations are compared with / validated against the TLA+ specification by TLC.
//
// The tasking handle is process-global state, therefore EVERY HISTORY RUNS IN A FRESH
// PROCESS: the parent (which never touches the tasking system and never creates a thread)
// forks one child per history, up to --par children at a time.
//
// Loop: a parallel_for over k tasks (k = mult * max(1, configured count or hardware
// threads); nested: min(count + 1, 12) outer tasks each running such an inner parallel_for) whose bodies
// record entry and exit with stamps from ONE global atomic counter (no wall clock):
// ev[stamp] = +1 at entry, -1 at exit.  The sequence ev[0..] ("deltas") is the observation;
// the specification (TLC) computes its maximal prefix sum = the number of bodies that
// were simultaneously between their entry and exit stamps - a sound lower bound on the
// number of threads that really were inside bodies at the same time.  To make overlap
// likely every thread lingers inside its first bodies of a loop until it has seen
// `target` = configured count + 1 bodies inside at once or its bounded patience (a number
// of short spin rounds, every 8th followed by a yield, per thread and loop) is used up; nothing
// ever waits unboundedly.
//
// Further actions (boundary instance of the specification): Init with issuing thread / flushDenormals, loops whose
// task count k, outer count, index type / API variant come from the specification, InitBurst (cnt initialisations,
// the i-th argument given by the spec's formula), LoopBurst (cnt loops recorded into one table), LoopPair (two calls
// released together by a spin barrier, one table per call), actions issued by "early-thread" (a thread that exists
// before the first action).  Only one thread acts at a time except in LoopPair.
//
//   drv_tasking_init --hw
//   drv_tasking_init --in histories.ndjson --out obs.ndjson [--par P] [--timeout-s T]
// input line : {"id":7,"h":[{"a":"Init","arg":{"n":3}},{"a":"Query","arg":{"from":"init-thread"}},
//                           {"a":"Loop","arg":{"from":"second-thread","shape":"flat","mult":4,"patience":200,"work":0}}]}
// output line: {"id":7,"backend":"TBB","hw":16,"obs":[{},{"r":3},{"deltas":[1,1,-1,...],"k":12,"bodies":12,"threads":3,...}]}
//              {"id":7,"crash":{"step":k,"sig":n,"status":s}} / {"id":7,"timeout":{"step":k}}
#include <fcntl.h>
#include <sched.h>
#include <signal.h>
#include <sys/mman.h>
#include <sys/wait.h>
#include <unistd.h>
#include <algorithm>
#include <atomic>
#include <chrono>
#include <condition_variable>
#include <fstream>
#include <functional>
#include <mutex>
#include <stdexcept>
#include <string>
#include <thread>
#include <vector>
#include "json.h"
#include "rkcommon/tasking/parallel_for.h"
#include "rkcommon/tasking/parallel_foreach.h"
#include "rkcommon/tasking/tasking_system_init.h"

using vj::Json;
namespace tasking = rkcommon::tasking;

static const char *backendName()
{
#if defined(RKCOMMON_TASKING_TBB)
  return "TBB";
#elif defined(RKCOMMON_TASKING_OMP)
  return "OpenMP";
#elif defined(RKCOMMON_TASKING_INTERNAL)
  return "Internal";
#else
  return "Debug";
#endif
}

static inline void cpuRelax(int rounds)
{
  for (int i = 0; i < rounds; ++i) {
#if defined(__x86_64__) || defined(__i386__)
    __builtin_ia32_pause();
#else
    __asm__ __volatile__("" ::: "memory");
#endif
  }
}

// ---------------------------------------------------------------------------
// one recorded loop
struct LoopRec
{
  std::atomic<unsigned> stamp{0};   // THE global counter all events are ordered by
  std::atomic<int> inside{0};       // heuristic only (when to stop lingering); never reported
  std::atomic<int> released{0};
  std::atomic<int> overflow{0};
  std::vector<signed char> ev;
  std::vector<unsigned long> who;
  int target = 0;
  int patience = 0;
  int work = 0;
  unsigned epoch = 0;
};

struct ThreadBudget
{
  unsigned epoch;
  int left;
};
static thread_local ThreadBudget tl_budget = {0u, 0};
static std::atomic<unsigned> g_epoch{0};

static inline void leafBody(LoopRec &L, int idx)
{
  unsigned s0 = L.stamp.fetch_add(1);
  if (s0 < L.ev.size()) {
    L.ev[s0] = 1;
    L.who[s0] = (unsigned long)pthread_self();
  } else
    L.overflow.store(1);
  int now = L.inside.fetch_add(1) + 1;
  if (now >= L.target)
    L.released.store(1);
  ThreadBudget &tb = tl_budget;
  if (tb.epoch != L.epoch) {
    tb.epoch = L.epoch;
    tb.left = L.patience;
  }
  while (tb.left > 0 && !L.released.load(std::memory_order_relaxed)) {
    cpuRelax(64);
    if ((tb.left & 7) == 0) sched_yield();   // mostly spin: on an overloaded machine a yield costs a whole time slice
    --tb.left;
  }
  if (L.work > 0)
    cpuRelax(L.work * (int)(((unsigned)idx * 2654435761u >> 28) & 7u));
  L.inside.fetch_sub(1);
  unsigned s1 = L.stamp.fetch_add(1);
  if (s1 < L.ev.size()) {
    L.ev[s1] = -1;
    L.who[s1] = (unsigned long)pthread_self();
  } else
    L.overflow.store(1);
}

// what a Loop step asks for
struct LoopSpec
{
  std::string shape = "flat";   // flat | nested
  std::string api = "for:int";  // index type / API variant
  long k = 1;                   // tasks (inner tasks when nested)
  int outer = 1;                // outer tasks when nested
};

template <typename I>
static void issueFor(LoopRec &L, const LoopSpec &sp)
{
  if (sp.shape == "nested")
    tasking::parallel_for(sp.outer, [&](int) { tasking::parallel_for((I)sp.k, [&](I i) { leafBody(L, (int)i); }); });
  else
    tasking::parallel_for((I)sp.k, [&](I i) { leafBody(L, (int)i); });
}

// issue one parallel loop through the requested API variant (all of them end in rkcommon's parallel_for)
static void issue(LoopRec &L, const LoopSpec &sp)
{
  const std::string &a = sp.api;
  if (a == "for:int") issueFor<int>(L, sp);
  else if (a == "for:size_t") issueFor<size_t>(L, sp);
  else if (a == "for:u8") issueFor<unsigned char>(L, sp);
  else if (a == "for:short") issueFor<short>(L, sp);
  else if (a == "for:i64") issueFor<long long>(L, sp);
  else if (a == "for:int:lvalue") {          // the functor is an lvalue (TASK_T deduced as a reference)
    auto f = [&](int i) { leafBody(L, i); };
    tasking::parallel_for((int)sp.k, f);
  } else if (a == "blocks") {
    tasking::parallel_in_blocks_of<4>((int)sp.k, [&](int b, int e) { for (int i = b; i < e; ++i) leafBody(L, i); });
  } else if (a == "foreach") {
    std::vector<int> v((size_t)sp.k);
    for (size_t i = 0; i < v.size(); ++i) v[i] = (int)i;
    tasking::parallel_foreach(v, [&](int &x) { leafBody(L, x); });
  } else
    throw std::runtime_error("unknown api variant " + a);
}

static void prepare(LoopRec &L, long totalBodies, int target, int work)
{
  L.ev.assign((size_t)(2 * totalBodies + 64), 0);
  L.who.assign(L.ev.size(), 0ul);
  L.target = target;
  L.work = work;
}

static void arm(LoopRec &L, int patience)   // before every single loop
{
  L.inside.store(0);
  L.released.store(0);
  L.patience = patience;
  L.epoch = ++g_epoch;
}

static Json collect(LoopRec &L, const char *key, Json &o)
{
  unsigned n = std::min<unsigned>(L.stamp.load(), (unsigned)L.ev.size());
  Json d = Json::array();
  bool malformed = L.overflow.load() != 0;
  std::vector<unsigned long> ids;
  long bodies = 0;
  for (unsigned i = 0; i < n; ++i) {
    if (L.ev[i] == 0) malformed = true;
    if (L.ev[i] == 1) ++bodies;
    d.push(Json((int)L.ev[i]));
    ids.push_back(L.who[i]);
  }
  std::sort(ids.begin(), ids.end());
  ids.erase(std::unique(ids.begin(), ids.end()), ids.end());
  o.set(key, d);
  o.set(std::string("bodies_") + key, (long long)bodies);
  o.set(std::string("threads_") + key, (long long)ids.size());
  if (malformed) o.set("malformed", true);
  return o;
}

static Json runLoopHere(const LoopSpec &sp, int target, int patience, int work)
{
  LoopRec L;
  prepare(L, sp.k * (sp.shape == "nested" ? sp.outer : 1), target, work);
  arm(L, patience);
  issue(L, sp);
  Json o = Json::object();
  collect(L, "deltas", o);
  o.set("k", (long long)sp.k);
  if (sp.shape == "nested") o.set("outer", sp.outer);
  o.set("target", target);
  o.set("lingering_ended_early", L.released.load() != 0);
  return o;
}

// cnt loops in a row recorded into ONE table (the concatenation of their recordings); threads linger only in the
// first two, every 16th and the last four loops (a hidden counter would show where it wraps)
static Json runLoopBurstHere(long cnt, long k, int target, int patience)
{
  LoopRec L;
  prepare(L, k * cnt, target, 0);
  LoopSpec sp;
  sp.k = k;
  for (long i = 0; i < cnt; ++i) {
    bool linger = i < 2 || i + 4 >= cnt || (i % 16) == 0;
    arm(L, linger ? patience : 0);
    issue(L, sp);
  }
  Json o = Json::object();
  collect(L, "deltas", o);
  o.set("k", (long long)k);
  o.set("loops", (long long)cnt);
  return o;
}

// a thread that exists before the first action of the history (and before any initialisation)
struct EarlyThread
{
  std::mutex m;
  std::condition_variable cv;
  std::function<void()> job;
  bool has = false, done = false;
  std::thread t;
  void start()
  {
    t = std::thread([this]() {
      for (;;) {
        std::unique_lock<std::mutex> lk(m);
        cv.wait(lk, [this]() { return has; });
        std::function<void()> j = job;
        has = false;
        lk.unlock();
        j();
        lk.lock();
        done = true;
        cv.notify_all();
      }
    });
    t.detach();
  }
  void run(const std::function<void()> &j)
  {
    std::unique_lock<std::mutex> lk(m);
    job = j;
    has = true;
    done = false;
    cv.notify_all();
    cv.wait(lk, [this]() { return done; });
  }
};

// ---------------------------------------------------------------------------
struct World
{
  int hw;
  int lastN = 0;   // argument of the latest Init (0: none yet); only used to tune the lingering and to size legacy loops
  EarlyThread early;
  World()
  {
    hw = (int)std::thread::hardware_concurrency();
    if (hw < 1) hw = 1;
    early.start();
  }

  // perform fn on the requested issuing thread; only one thread acts at a time (the others are idle)
  void runOn(const std::string &from, const std::function<void()> &fn)
  {
    if (from == "second-thread") {
      std::thread t(fn);
      t.join();
    } else if (from == "early-thread")
      early.run(fn);
    else
      fn();
  }

  Json step(const Json &st)
  {
    const std::string a = st["a"].str();
    const Json &arg = st["arg"];
    Json o = Json::object();
    const std::string from = arg.has("from") ? arg["from"].str() : std::string("init-thread");
    if (a == "Init") {
      int n = (int)arg["n"].num();
      bool fz = arg.has("fz") && arg["fz"].boolean();
      bool twoArgs = arg.has("fz");
      runOn(from, [&]() {
        if (twoArgs) tasking::initTaskingSystem(n, fz);
        else tasking::initTaskingSystem(n);
      });
      lastN = n;
      return o;
    }
    if (a == "InitBurst") {
      long cnt = (long)arg["cnt"].num();
      int n = (int)arg["n"].num();
      const Json &cyc = arg["cyc"];
      for (long i = 1; i <= cnt; ++i) {
        int x = (i == cnt) ? n : (int)cyc[(size_t)((i - 1) % (long)cyc.size())].num();
        tasking::initTaskingSystem(x);
      }
      lastN = n;
      o.set("inits", (long long)cnt);
      return o;
    }
    if (a == "Query") {
      int r = -12345;
      runOn(from, [&]() { r = tasking::numTaskingThreads(); });
      o.set("r", r);
      return o;
    }
    int patience = arg.has("patience") ? (int)arg["patience"].num() : 200;
    int work = arg.has("work") ? (int)arg["work"].num() : 0;
    int base = lastN > 0 ? lastN : hw;
    int target = base + 1;
    if (a == "Loop" || a == "LoopPair") {
      LoopSpec sp;
      sp.shape = arg["shape"].str();
      if (arg.has("api")) sp.api = arg["api"].str();
      int mult = arg.has("mult") ? (int)arg["mult"].num() : 4;
      sp.k = arg.has("k") ? (long)arg["k"].num() : (long)std::max(1, mult * base);
      // nested: more outer tasks than the configured count (an outer team alone can exceed it)
      sp.outer = arg.has("outer") ? (int)arg["outer"].num() : std::min(base + 1, 12);
      if (a == "Loop") {
        runOn(from, [&]() { o = runLoopHere(sp, target, patience, work); });
        return o;
      }
      // two calls at the same moment: this thread and a second one, released together by a spin barrier;
      // every call has its own table and its own stamp counter (the contract bounds each call)
      std::atomic<int> arrived{0};
      Json o1, o2;
      auto one = [&](Json *out) {
        arrived.fetch_add(1);
        while (arrived.load() < 2) sched_yield();
        *out = runLoopHere(sp, target, patience, work);
      };
      std::thread t([&]() { one(&o2); });
      one(&o1);
      t.join();
      o.set("d1", o1["deltas"]);
      o.set("d2", o2["deltas"]);
      o.set("k", (long long)sp.k);
      if (o1.has("malformed") || o2.has("malformed")) o.set("malformed", true);
      return o;
    }
    if (a == "LoopBurst") {
      long cnt = (long)arg["cnt"].num();
      long k = (long)arg["k"].num();
      runOn(from, [&]() { o = runLoopBurstHere(cnt, k, target, patience); });
      return o;
    }
    o.set("unknown_action", a);
    return o;
  }
};

// ---------------------------------------------------------------------------
struct Slot
{
  pid_t pid;
  long idx;
  std::chrono::steady_clock::time_point t0;
};

static int g_fd = -1;
static void emit(const Json &j)
{
  std::string s = j.dump();
  s += '\n';
  size_t off = 0;
  while (off < s.size()) {
    ssize_t n = write(g_fd, s.data() + off, s.size() - off);
    if (n <= 0) _exit(3);
    off += (size_t)n;
  }
}

int main(int argc, char **argv)
{
  std::string in, out;
  long par = 4, timeoutS = 120;
  for (int i = 1; i < argc; ++i) {
    std::string a = argv[i];
    if (a == "--hw") {
      unsigned h = std::thread::hardware_concurrency();
      printf("{\"hw\":%u,\"backend\":\"%s\"}\n", h < 1 ? 1u : h, backendName());
      return 0;
    } else if (a == "--in" && i + 1 < argc) in = argv[++i];
    else if (a == "--out" && i + 1 < argc) out = argv[++i];
    else if (a == "--par" && i + 1 < argc) par = atol(argv[++i]);
    else if (a == "--timeout-s" && i + 1 < argc) timeoutS = atol(argv[++i]);
  }
  if (in.empty() || out.empty()) {
    fprintf(stderr, "usage: %s --hw | --in histories.ndjson --out obs.ndjson [--par P] [--timeout-s T]\n", argv[0]);
    return 2;
  }
  if (par < 1) par = 1;
  std::vector<Json> hs;
  {
    std::ifstream f(in);
    if (!f) { fprintf(stderr, "cannot read %s\n", in.c_str()); return 2; }
    std::string line;
    while (std::getline(f, line))
      if (!line.empty()) hs.push_back(vj::parse(line));
  }
  g_fd = open(out.c_str(), O_WRONLY | O_CREAT | O_TRUNC | O_APPEND, 0644);
  if (g_fd < 0) { perror("open out"); return 2; }
  volatile long long *prog = (volatile long long *)mmap(nullptr, sizeof(long long) * (size_t)par, PROT_READ | PROT_WRITE,
                                                        MAP_SHARED | MAP_ANONYMOUS, -1, 0);
  std::vector<Slot> slots((size_t)par);
  for (auto &s : slots) s.pid = 0;
  size_t next = 0, running = 0;
  while (next < hs.size() || running > 0) {
    // start children
    for (size_t si = 0; si < slots.size() && next < hs.size(); ++si) {
      if (slots[si].pid != 0) continue;
      prog[si] = -1;
      fflush(nullptr);
      pid_t pid = fork();
      if (pid < 0) { perror("fork"); return 2; }
      if (pid == 0) {
        // ---- the fresh process of this history ----
        const Json &hist = hs[next];
        World w;
        Json obs = Json::array();
        const Json &h = hist["h"];
        for (size_t k = 0; k < h.size(); ++k) {
          prog[si] = (long long)k;
          Json o;
          try {
            o = w.step(h[k]);
          } catch (const std::exception &e) {
            o = Json::object();
            o.set("unexpected_exception", std::string(e.what()));
          } catch (...) {
            o = Json::object();
            o.set("unexpected_exception", "unknown");
          }
          obs.push(o);
        }
        Json r = Json::object();
        r.set("id", hist["id"]);
        r.set("backend", backendName());
        r.set("hw", w.hw);
        r.set("obs", obs);
        emit(r);
        _exit(0);   // no static destructors: worker threads of the backend may still be alive
      }
      slots[si].pid = pid;
      slots[si].idx = (long)next;
      slots[si].t0 = std::chrono::steady_clock::now();
      ++next;
      ++running;
    }
    // reap
    bool reaped = false;
    for (size_t si = 0; si < slots.size(); ++si) {
      if (slots[si].pid == 0) continue;
      int status = 0;
      pid_t w = waitpid(slots[si].pid, &status, WNOHANG);
      bool timedOut = false;
      if (w == 0) {
        // watchdog (infrastructure bound only; never part of a verdict about thread counts)
        long el = (long)std::chrono::duration_cast<std::chrono::seconds>(std::chrono::steady_clock::now() - slots[si].t0).count();
        if (el <= timeoutS) continue;
        kill(slots[si].pid, SIGKILL);
        waitpid(slots[si].pid, &status, 0);
        timedOut = true;
      }
      if (timedOut || !(WIFEXITED(status) && WEXITSTATUS(status) == 0)) {
        Json r = Json::object();
        r.set("id", hs[(size_t)slots[si].idx]["id"]);
        r.set("backend", backendName());
        Json c = Json::object();
        c.set("step", (long long)prog[si]);
        if (timedOut)
          r.set("timeout", c);
        else {
          c.set("status", WIFEXITED(status) ? WEXITSTATUS(status) : -1);
          c.set("sig", WIFSIGNALED(status) ? WTERMSIG(status) : 0);
          r.set("crash", c);
        }
        emit(r);
      }
      slots[si].pid = 0;
      --running;
      reaped = true;
    }
    if (!reaped) usleep(500);
  }
  close(g_fd);
  return 0;
}
