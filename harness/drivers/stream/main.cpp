// Conformance driver for spec/networking/Stream.tla and FixedWriter.tla (property C15).
// Interprets the actions of the specifications on the real rkcommon
// BufferWriter / WriteSizeCalculator / BufferReader / FixedBufferWriter and
// reports the observables the specifications' `last.exp` talk about.  It never
// decides anything.
//
// input line: {"id":..,"kind":"stream"|"fixed","rbuf":"direct"|"owned"|"view"|"fixed"|"fixedwriter","h":[...]}
//
// Mapping of model values to concrete values (injective, inverted when reading back;
// a value that is not in the image is reported as the string "unmapped:<value>"):
//   u8  v -> uint8_t(v)          i32 v -> int32_t(v)        u64 v -> size_t(v) * 0x100000001
//   f64 v -> double(v) / 8       pod <<a,b,c>> -> Pod{a, b * 0.5f, uint8_t(c)}
//   strings, vectors, byte blocks: as they are.
#include <cmath>
#include <cstring>
#include <memory>
#include <new>
#include <string>
#include <vector>
#include "driver.h"
#include "rkcommon/networking/DataStreaming.h"

using namespace rkcommon::networking;
using namespace rkcommon::utility;
using vj::Json;

// A length read from a mis-framed stream can ask std::vector for an absurd size.  In a
// normal build operator new throws std::bad_alloc then; the sanitizer's allocator aborts the
// process instead.  Keep the normal behaviour (the read "throws") so that the observation is
// the one a user of the library gets; the driver runs with a limit of 64 MiB per allocation
// (nothing it does legitimately needs more); smaller requests go to the instrumented malloc.
static const std::size_t kMaxAlloc = std::size_t(1) << 26;
void *operator new(std::size_t n)
{
  if (n > kMaxAlloc) throw std::bad_alloc();
  void *p = std::malloc(n ? n : 1);
  if (!p) throw std::bad_alloc();
  return p;
}
void *operator new[](std::size_t n) { return operator new(n); }
void *operator new(std::size_t n, const std::nothrow_t &) noexcept
{
  return n > kMaxAlloc ? nullptr : std::malloc(n ? n : 1);
}
void *operator new[](std::size_t n, const std::nothrow_t &t) noexcept { return operator new(n, t); }
void operator delete(void *p) noexcept { std::free(p); }
void operator delete[](void *p) noexcept { std::free(p); }
void operator delete(void *p, std::size_t) noexcept { std::free(p); }
void operator delete[](void *p, std::size_t) noexcept { std::free(p); }

struct Pod
{
  int32_t a;
  float b;
  uint8_t c;
};

struct Pod3
{
  uint8_t a, b, c;
  bool operator==(const Pod3 &o) const { return a == o.a && b == o.b && c == o.c; }
};
struct Pod24
{
  double a, b, c;
};
struct alignas(32) Pod32a
{
  int32_t a, b;
};
static_assert(sizeof(Pod3) == 3 && sizeof(Pod24) == 24 && sizeof(Pod32a) == 32 && alignof(Pod32a) == 32, "struct layouts the specification assumes");

// arithmetic values the specification names by a string: exact bit patterns
template <typename T>
struct Named
{
  const char *name;
  T value;
};
static const Named<double> kF64[] = {{"0.1", 0.1}, {"1/3", 1.0 / 3.0}, {"subnormal", 4.9406564584124654e-324 * 1234567.0}, {"max", 1.7976931348623157e308},
                                     {"min-normal", 2.2250738585072014e-308}, {"-inf", -HUGE_VAL}, {"-1e300", -1e300}};
static const Named<float> kF32[] = {{"0.1", 0.1f}, {"subnormal", 1.401298464324817e-45f * 12345.0f}, {"max", 3.402823466e+38f}, {"-inf", -HUGE_VALF}};
static const Named<uint64_t> kU64[] = {{"2^31", 1ULL << 31}, {"2^32-1", (1ULL << 32) - 1}, {"2^32", 1ULL << 32}, {"2^32+1", (1ULL << 32) + 1},
                                       {"2^63", 1ULL << 63}, {"SIZE_MAX", ~0ULL}, {"SIZE_MAX/4", ~0ULL / 4}};
static const Named<int32_t> kI32[] = {{"INT_MIN", (int32_t)0x80000000}, {"INT_MAX", 0x7fffffff}, {"-1", -1}};

template <typename T, size_t N>
static T byName(const Named<T> (&tab)[N], const std::string &name)
{
  for (size_t i = 0; i < N; ++i)
    if (name == tab[i].name) return tab[i].value;
  throw std::logic_error("driver: unknown value name " + name);
}
template <typename T, size_t N>
static Json nameOf(const Named<T> (&tab)[N], const T &x)
{
  for (size_t i = 0; i < N; ++i)
    if (std::memcmp(&tab[i].value, &x, sizeof(T)) == 0) return Json(tab[i].name); // the same bits
  unsigned long long bits = 0;
  std::memcpy(&bits, &x, sizeof(T) < sizeof bits ? sizeof(T) : sizeof bits);
  char buf[40];
  snprintf(buf, sizeof buf, "unmapped:0x%llx", bits);
  return Json(std::string(buf));
}

// formula-defined content (Stream!GByte): element i is built from the byte (i * k + b) % 256
struct Gen
{
  size_t n, k, b;
  Gen(const Json &g) : n((size_t)g["n"].num()), k((size_t)g["k"].num()), b((size_t)g["b"].num()) {}
  uint8_t byte(size_t i) const { return (uint8_t)((i * k + b) % 256); }
  std::string str(size_t n_) const
  {
    std::string x(n_, '\0');
    for (size_t i = 0; i < n_; ++i) x[i] = (char)byte(i);
    return x;
  }
  std::vector<uint8_t> bytes() const
  {
    std::vector<uint8_t> x(n);
    for (size_t i = 0; i < n; ++i) x[i] = byte(i);
    return x;
  }
  std::vector<int> ints() const
  {
    std::vector<int> x(n);
    for (size_t i = 0; i < n; ++i) x[i] = (int)byte(i) - 128;
    return x;
  }
  std::vector<Pod3> pod3s() const
  {
    std::vector<Pod3> x(n);
    for (size_t i = 0; i < n; ++i) x[i] = Pod3{byte(3 * i), byte(3 * i + 1), byte(3 * i + 2)};
    return x;
  }
  std::vector<std::string> strs() const
  {
    std::vector<std::string> x(n);
    for (size_t i = 0; i < n; ++i) {
      x[i].resize(i % 3);
      for (size_t j = 0; j < i % 3; ++j) x[i][j] = (char)byte(i + j);
    }
    return x;
  }
};
// what is reported for a large value read back: its length, whether it equals the object written, first / last / sum
template <typename V, typename F>
static Json projection(const V &got, const V &want, F elem)
{
  Json o = Json::object();
  o.set("n", (long long)got.size());
  o.set("eq", got == want);
  long long sum = 0;
  for (size_t i = 0; i < got.size(); ++i) sum += elem(got[i]);
  o.set("first", got.empty() ? -1000LL : (long long)elem(got[0]));
  o.set("last", got.empty() ? -1000LL : (long long)elem(got[got.size() - 1]));
  o.set("sum", sum);
  return o;
}
static long long elemU8(uint8_t x) { return x; }
static long long elemCh(char x) { return (unsigned char)x; }
static long long elemInt(int x) { return x; }

// sizes the specification writes as negative numbers (its integers have 32 bits): n > -2^30 stands for
// 2^64 + n; -2^30 - j for 2^31, 2^31 + 1, 2^32 - 1, 2^32, 2^32 + 1, 2^63 (j = 0 .. 5)
static size_t sizeFromCode(long long n)
{
  if (n >= 0 || n > -(1LL << 30)) return (size_t)n;
  static const size_t tab[] = {size_t(1) << 31, (size_t(1) << 31) + 1, (size_t(1) << 32) - 1, size_t(1) << 32, (size_t(1) << 32) + 1, size_t(1) << 63};
  const long long j = -(1LL << 30) - n;
  if (j < 0 || j > 5) throw std::logic_error("driver: unknown size code");
  return tab[j];
}

static Json num(size_t v) { return v <= 0x7fffffffULL ? Json((long long)v) : Json(-1); } // -1: does not fit a model integer

static std::vector<int> ints(const Json &a)
{
  std::vector<int> v;
  for (size_t i = 0; i < a.size(); ++i) v.push_back((int)a[i].num());
  return v;
}
static std::vector<uint8_t> bytes(const Json &a)
{
  std::vector<uint8_t> v;
  for (size_t i = 0; i < a.size(); ++i) v.push_back((uint8_t)a[i].num());
  return v;
}
template <typename T>
static Json arr(const std::vector<T> &v)
{
  Json a = Json::array();
  for (auto &x : v) a.push(Json((long long)x));
  return a;
}

struct IWorld
{
  virtual ~IWorld() {}
  virtual Json step(const Json &act) = 0;
};

// ---------------------------------------------------------------------------
struct StreamWorld : IWorld
{
  BufferWriter w;
  WriteSizeCalculator calc;
  std::string rbufKind;
  std::unique_ptr<uint8_t[]> backing;                       // storage behind an ArrayView reader buffer
  std::shared_ptr<AbstractArray<uint8_t>> rbuf;
  std::unique_ptr<BufferReader> rd; // the reader of Open / OpenAll / OpenFrac (over a copy or the complete buffer)
  // LIVE readers: constructed over the writer's own (shared, growing) buffer at any time, also before
  // the data they will read has been written; each has its own cursor
  struct Live
  {
    std::unique_ptr<BufferReader> r;
    size_t bytesAtCtor; // what the writer held when the reader was constructed
    size_t movesAtCtor; // relocations of the writer's storage seen until then
  };
  std::vector<Live> live;
  size_t moves = 0;             // how often the writer's storage has moved (observed through data())
  BufferReader *cur = nullptr;  // the reader the current action addresses
  bool failed = false; // a read on the current reader has thrown (recording policy "stop reading after an exception")

  bool liveMode = false; // histories of StreamLive: the state of every live reader is reported after every step
  StreamWorld(const std::string &k, bool lm = false) : rbufKind(k), liveMode(lm) {}

  // the item as the concrete C++ object, streamed into ONE write stream (BufferWriter,
  // WriteSizeCalculator, FixedBufferWriter: all through the WriteStream operators)
  static std::string codes2str(const Json &v)
  {
    if (v.type == Json::Str) return v.str();
    std::string x(v.size(), '\0'); // std::string(size, bytes): NUL bytes are ordinary characters
    for (size_t i = 0; i < v.size(); ++i) x[i] = (char)(unsigned char)v[i].num();
    return x;
  }
  static std::vector<std::string> strs(const Json &v)
  {
    std::vector<std::string> x;
    for (size_t i = 0; i < v.size(); ++i) x.push_back(codes2str(v[i]));
    return x;
  }
  static Json str2codes(const std::string &x)
  {
    Json a = Json::array();
    for (unsigned char c : x) a.push(Json((int)c));
    return a;
  }

  // self: what "the writer's own buffer" is for this stream (item kind selfbuf)
  static void emit(const Json &item, WriteStream &out, const AbstractArray<uint8_t> *self = nullptr)
  {
    const std::string &t = item["t"].str();
    const Json &v = item["v"];
    if (t == "gbstr") out << Gen(v).str(Gen(v).n);
    else if (t == "gvi") out << Gen(v).ints();
    else if (t == "graw") {
      std::vector<uint8_t> b = Gen(v).bytes();
      out.write(b.data(), b.size());
    } else if (t == "gvs") out << Gen(v).strs();
    else if (t == "gu8burst") {
      Gen g(v);
      for (size_t i = 0; i < g.n; ++i) out << g.byte(i); // n separate writes
    } else if (t == "gvpod3") out << Gen(v).pod3s();
    else if (t == "gOwnedArray<int>") {
      std::vector<int> x = Gen(v).ints();
      OwnedArray<int> a(x);
      out << a;
    } else if (t == "selfbuf") {
      if (!self) throw std::runtime_error("driver: no own buffer for this stream");
      out << *self; // for a BufferWriter: its own shared buffer, read while the writer appends to it
    } else if (t == "pod3") {
      Pod3 p = {(uint8_t)v[0].num(), (uint8_t)v[1].num(), (uint8_t)v[2].num()};
      out << p;
    } else if (t == "pod24") {
      Pod24 p = {(double)v[0].num() / 8.0, (double)v[1].num() / 8.0, (double)v[2].num() / 8.0};
      out << p;
    } else if (t == "pod32a") {
      Pod32a p;
      std::memset(&p, 0, sizeof p);
      p.a = (int32_t)v[0].num();
      p.b = (int32_t)v[1].num();
      out << p;
    } else if (t == "f64x") out << byName(kF64, v.str());
    else if (t == "f32x") out << byName(kF32, v.str());
    else if (t == "u64x") out << (size_t)byName(kU64, v.str());
    else if (t == "i32x") out << byName(kI32, v.str());
    else if (t == "u8") out << (uint8_t)v.num();
    else if (t == "i32") out << (int32_t)v.num();
    else if (t == "u64") out << (size_t)((size_t)v.num() * 0x100000001ULL);
    else if (t == "f64") out << (double)((double)v.num() / 8.0);
    else if (t == "pod") {
      Pod p;
      std::memset(&p, 0, sizeof p);
      p.a = (int32_t)v[0].num();
      p.b = (float)v[1].num() * 0.5f;
      p.c = (uint8_t)v[2].num();
      out << p;
    } else if (t == "str" || t == "bstr") {
      const std::string x = codes2str(v); // operator<<(WriteStream&, const std::string&): size() bytes
      out << x;
    } else if (t == "cstr" || t == "cstrb") {
      const std::string x = codes2str(v);
      const char *c = x.c_str(); // operator<<(WriteStream&, const char*): strlen() bytes
      out << c;
    } else if (t == "vi") out << ints(v);
    else if (t == "vs" || t == "vbs") out << strs(v);
    else if (t == "vcs") {
      // std::vector<const char*>: every element through operator<<(WriteStream&, const char*) (seeded/C15-07)
      const std::vector<std::string> s = strs(v);
      std::vector<const char *> p;
      for (const auto &x : s) p.push_back(x.c_str());
      out << p;
    }
    else if (t == "vvbs") {
      std::vector<std::vector<std::string>> x;
      for (size_t i = 0; i < v.size(); ++i) x.push_back(strs(v[i]));
      out << x;
    } else if (t == "vvi") {
      std::vector<std::vector<int>> x;
      for (size_t i = 0; i < v.size(); ++i) x.push_back(ints(v[i]));
      out << x;
    } else if (t == "raw") {
      std::vector<uint8_t> b = bytes(v);
      out.write(b.data(), b.size());
    } else if (t == "OwnedArray<int>") {
      std::vector<int> x = ints(v);
      OwnedArray<int> a(x);
      out << a; // static type: the concrete wrapper
    } else if (t == "ArrayView<int>") {
      std::vector<int> x = ints(v);
      ArrayView<int> a(x);
      out << a;
    } else if (t == "FixedArray<int>") {
      std::vector<int> x = ints(v);
      FixedArray<int> a(x);
      out << a;
    } else if (t == "AbstractArray<int>&") {
      std::vector<int> x = ints(v);
      OwnedArray<int> o(x);
      const AbstractArray<int> &a = o;
      out << a;
    } else if (t == "FixedArrayView<uint8_t>") {
      // a view of v.size() bytes at offset 1 of a FixedArray of v.size() + 2 bytes
      std::vector<uint8_t> x = bytes(v);
      std::vector<uint8_t> padded(x.size() + 2, 0xEE);
      std::copy(x.begin(), x.end(), padded.begin() + 1);
      auto fb = std::make_shared<FixedArray<uint8_t>>(padded);
      FixedArray<uint8_t>::View a(fb, 1, x.size());
      out << a;
    } else
      throw std::runtime_error("driver: unknown item type " + t);
  }

  std::vector<Json> written; // the items, for the reader-buffer kind "fixedwriter"

  // a second writer / calculator pair, used alternately with the first by the same thread
  BufferWriter w2;
  WriteSizeCalculator calc2;
  std::unique_ptr<OwnedArray<uint8_t>> snapshot; // the bytes written before the current item (for selfbuf on the other streams)

  void write(const Json &item)
  {
    const bool self = item["t"].str() == "selfbuf";
    if (self) snapshot.reset(new OwnedArray<uint8_t>(w.buffer->data(), w.buffer->size()));
    emit(item, calc, snapshot.get());
    emit(item, w, w.buffer.get());
    emit(item, calc2, snapshot.get());
    emit(item, w2, w2.buffer.get());
    written.push_back(item);
  }

  void open(size_t k)
  {
    rd.reset();
    cur = nullptr;
    failed = false;
    const uint8_t *src = w.buffer->data();
    const size_t total = w.buffer->size();
    if (k > total) throw std::runtime_error("driver: truncation point beyond the written bytes");
    if (rbufKind == "fixedwriter") {
      // every item again, into a FixedBufferWriter whose capacity is exactly the bytes written:
      // the reader reads (the first k bytes of) that writer's buffer
      FixedBufferWriter fw(total);
      for (const Json &it : written) {
        auto sofar = fw.getWrittenView();
        emit(it, fw, sofar.get());
      }
      if (fw.available() != 0) throw std::runtime_error("driver: the FixedBufferWriter holds fewer bytes than the BufferWriter");
      rbuf = std::make_shared<FixedArray<uint8_t>::View>(fw.buffer, 0, k);
    } else if (rbufKind == "direct" && k == total) {
      rbuf = w.buffer; // the writer's own buffer
    } else if (rbufKind == "view") {
      backing.reset(new uint8_t[k]); // exactly k bytes: an over-read is a heap-buffer-overflow
      if (k) std::memcpy(backing.get(), src, k);
      rbuf = std::make_shared<ArrayView<uint8_t>>(backing.get(), k);
    } else if (rbufKind == "fixed") {
      rbuf = std::make_shared<FixedArray<uint8_t>>(const_cast<uint8_t *>(src), k);
    } else {
      rbuf = std::make_shared<OwnedArray<uint8_t>>(const_cast<uint8_t *>(src), k);
    }
    rd.reset(new BufferReader(rbuf));
    cur = rd.get();
  }

  template <typename T>
  std::vector<T> viewToVec(size_t count)
  {
    // size_t n; buf >> n; getView(n * sizeof(T)): the zero-copy way to read an array
    auto view = cur->getView<uint8_t>(count * sizeof(T));
    std::vector<T> out(count);
    if (count) std::memcpy(out.data(), view->data(), count * sizeof(T));
    return out;
  }

  // ---- destinations of operator>>: one scratch object per destination type, REUSED across the
  // reads of a history as the action's `dst` says:
  //   "fresh"  a newly constructed object          "reused" the scratch object as the last read left it
  //   "prepop" the scratch object assigned arg.pre beforehand
  // (a scratch object is replaced by a new one after a read into it has thrown)
  std::unique_ptr<std::string> sStr;
  std::unique_ptr<std::vector<int>> sVi;
  std::unique_ptr<std::vector<uint8_t>> sVb;
  std::unique_ptr<std::vector<std::string>> sVs;
  std::unique_ptr<std::vector<std::vector<int>>> sVvi;
  std::unique_ptr<std::vector<std::vector<std::string>>> sVvs;
  uint8_t pU8 = 0;
  int32_t pI32 = 0;
  size_t pU64 = 0;
  double pF64 = 0;
  Pod pPod = Pod();

  static void assign(std::string &d, const Json &v) { d = codes2str(v); }
  static void assign(std::vector<std::vector<std::string>> &d, const Json &v)
  {
    d.clear();
    for (size_t i = 0; i < v.size(); ++i) d.push_back(strs(v[i]));
  }
  static void assign(std::vector<int> &d, const Json &v) { d = ints(v); }
  static void assign(std::vector<uint8_t> &d, const Json &v) { d = bytes(v); }
  static void assign(std::vector<std::string> &d, const Json &v) { d = strs(v); }
  static void assign(std::vector<std::vector<int>> &d, const Json &v)
  {
    d.clear();
    for (size_t i = 0; i < v.size(); ++i) d.push_back(ints(v[i]));
  }

  template <typename T>
  T &dest(std::unique_ptr<T> &slot, const Json &arg)
  {
    const std::string dst = arg.has("dst") ? arg["dst"].str() : std::string("fresh");
    if (dst == "fresh" || !slot) slot.reset(new T());
    if (dst == "prepop") assign(*slot, arg["pre"]);
    else if (dst != "fresh" && dst != "reused") throw std::logic_error("driver: unknown destination " + dst);
    return *slot;
  }
  template <typename T>
  void podDest(T &x, const Json &arg)
  {
    if (!arg.has("dst") || arg["dst"].str() == "fresh") std::memset(&x, 0, sizeof x);
  }
  // the scratch object a failed read went into is not used again
  void discardDest(const Json &arg)
  {
    const std::string &t = arg["t"].str();
    const bool vec = arg["via"].str() == "vec";
    if (t == "str" || t == "cstr" || t == "bstr" || t == "cstrb") sStr.reset();
    else if (t == "vbs") sVs.reset();
    else if (t == "vvbs") sVvs.reset();
    else if (t == "vi" || (vec && t != "FixedArrayView<uint8_t>")) sVi.reset();
    else if (vec) sVb.reset();
    else if (t == "vs" || t == "vcs") sVs.reset();
    else if (t == "vvi") sVvi.reset();
  }

  Json readItem(const Json &arg)
  {
    const std::string &t = arg["t"].str();
    const std::string &via = arg["via"].str();
    BufferReader &r = *cur;
    if (arg.has("g") && arg["g"].type == Json::Obj) {
      // a formula-defined item: read it into a new object, compare with the object that was written
      const Gen g(arg["g"]);
      if (t == "gbstr") { std::string x; r >> x; return projection(x, g.str(g.n), elemCh); }
      if (t == "gvi") { std::vector<int> x; r >> x; return projection(x, g.ints(), elemInt); }
      if (t == "graw") {
        std::vector<uint8_t> x;
        if (via == "view") {
          auto view = r.getView<uint8_t>(g.n);
          x.assign(view->begin(), view->end());
        } else {
          x.resize(g.n);
          r.read(x.data(), g.n);
        }
        return projection(x, g.bytes(), elemU8);
      }
      if (t == "gu8burst") {
        std::vector<uint8_t> x;
        for (size_t i = 0; i < g.n; ++i) { uint8_t c; r >> c; x.push_back(c); } // n separate reads
        return projection(x, g.bytes(), elemU8);
      }
      if (t == "gOwnedArray<int>") {
        std::vector<int> x;
        if (via == "view") { size_t n; r >> n; x = viewToVec<int>(n); }
        else r >> x;
        return projection(x, g.ints(), elemInt);
      }
      if (t == "gvpod3") {
        std::vector<Pod3> x; r >> x;
        const std::vector<Pod3> want = g.pod3s();
        Json o = Json::object();
        o.set("n", (long long)x.size());
        o.set("eq", x == want);
        long long sum = 0;
        for (auto &p : x) sum += p.a + p.b + p.c;
        o.set("first", x.empty() ? -1000LL : (long long)x.front().a);
        o.set("last", x.empty() ? -1000LL : (long long)x.back().c);
        o.set("sum", sum);
        return o;
      }
      if (t == "gvs") {
        std::vector<std::string> x; r >> x;
        Json o = Json::object();
        o.set("n", (long long)x.size());
        o.set("eq", x == g.strs());
        long long chars = 0;
        for (auto &e : x) chars += (long long)e.size();
        o.set("chars", chars);
        return o;
      }
      if (t == "selfbuf") {
        // the array read back must be the first n bytes of the stream it was written into
        std::vector<uint8_t> x; r >> x;
        Json o = Json::object();
        o.set("n", (long long)x.size());
        o.set("eq", x.size() == g.n && g.n <= r.buffer->size() && (g.n == 0 || std::memcmp(x.data(), r.buffer->begin(), g.n) == 0));
        return o;
      }
      throw std::logic_error("driver: unknown formula-defined item type " + t);
    }
    if (t == "pod3") {
      Pod3 p = {0, 0, 0}; r >> p;
      Json a = Json::array();
      a.push(Json((int)p.a)); a.push(Json((int)p.b)); a.push(Json((int)p.c));
      return a;
    }
    if (t == "pod24") {
      Pod24 p = {0, 0, 0}; r >> p;
      Json a = Json::array();
      const double d[3] = {p.a, p.b, p.c};
      for (double x : d) {
        double y = x * 8.0;
        if (std::isfinite(y) && std::fabs(y) < 2e9 && y == std::floor(y)) a.push(Json((long long)y));
        else a.push(Json("unmapped:" + std::to_string(x)));
      }
      return a;
    }
    if (t == "pod32a") {
      Pod32a p; std::memset(&p, 0, sizeof p); r >> p;
      Json a = Json::array();
      a.push(Json((int)p.a)); a.push(Json((int)p.b));
      return a;
    }
    if (t == "f64x") { double x = 0; r >> x; return nameOf(kF64, x); }
    if (t == "f32x") { float x = 0; r >> x; return nameOf(kF32, x); }
    if (t == "u64x") { uint64_t x = 0; r >> x; return nameOf(kU64, x); }
    if (t == "i32x") { int32_t x = 0; r >> x; return nameOf(kI32, x); }
    if (t == "u8") { uint8_t &x = pU8; podDest(x, arg); r >> x; return Json((int)x); }
    if (t == "i32") { int32_t &x = pI32; podDest(x, arg); r >> x; return Json((int)x); }
    if (t == "u64") {
      size_t &x = pU64; podDest(x, arg); r >> x;
      if (x % 0x100000001ULL == 0 && x / 0x100000001ULL <= 0x7fffffffULL) return Json((long long)(x / 0x100000001ULL));
      return Json("unmapped:" + std::to_string(x));
    }
    if (t == "f64") {
      double &x = pF64; podDest(x, arg); r >> x;
      double y = x * 8.0;
      if (std::isfinite(y) && std::fabs(y) < 2e9 && y == std::floor(y)) return Json((long long)y);
      return Json("unmapped:" + std::to_string(x));
    }
    if (t == "pod") {
      Pod &p = pPod; podDest(p, arg); r >> p;
      Json a = Json::array();
      a.push(Json((int)p.a));
      float y = p.b * 2.0f;
      if (std::isfinite(y) && std::fabs(y) < 2e9f && y == std::floor(y)) a.push(Json((long long)y));
      else a.push(Json("unmapped:" + std::to_string(p.b)));
      a.push(Json((int)p.c));
      return a;
    }
    if (t == "str" || t == "cstr") { std::string &x = dest(sStr, arg); r >> x; return Json(x); }
    if (t == "bstr" || t == "cstrb") { std::string &x = dest(sStr, arg); r >> x; return str2codes(x); }
    if (t == "vbs") {
      std::vector<std::string> &x = dest(sVs, arg); r >> x;
      Json a = Json::array();
      for (auto &e : x) a.push(str2codes(e));
      return a;
    }
    if (t == "vvbs") {
      std::vector<std::vector<std::string>> &x = dest(sVvs, arg); r >> x;
      Json a = Json::array();
      for (auto &e : x) {
        Json b = Json::array();
        for (auto &f : e) b.push(str2codes(f));
        a.push(b);
      }
      return a;
    }
    if (t == "vi") { std::vector<int> &x = dest(sVi, arg); r >> x; return arr(x); }
    if (t == "vs" || t == "vcs") {
      std::vector<std::string> &x = dest(sVs, arg); r >> x;
      Json a = Json::array();
      for (auto &e : x) a.push(Json(e));
      return a;
    }
    if (t == "vvi") {
      std::vector<std::vector<int>> &x = dest(sVvi, arg); r >> x;
      Json a = Json::array();
      for (auto &e : x) a.push(arr(e));
      return a;
    }
    if (t == "raw") {
      const size_t n = (size_t)arg["n"].num();
      if (via == "view") {
        auto view = r.getView<uint8_t>(n);
        std::vector<uint8_t> out(view->begin(), view->end());
        return arr(out);
      }
      std::vector<uint8_t> out(n);
      r.read(out.data(), n);
      return arr(out);
    }
    const bool byteArr = (t == "FixedArrayView<uint8_t>");
    if (t == "OwnedArray<int>" || t == "ArrayView<int>" || t == "FixedArray<int>" || t == "AbstractArray<int>&" || byteArr) {
      if (via == "view") {
        size_t n; r >> n;
        return byteArr ? arr(viewToVec<uint8_t>(n)) : arr(viewToVec<int>(n));
      }
      if (byteArr) { std::vector<uint8_t> &x = dest(sVb, arg); r >> x; return arr(x); }
      std::vector<int> &x = dest(sVi, arg); r >> x; return arr(x);
    }
    throw std::logic_error("driver: unknown item type " + t);
  }

  Json probe(const std::string &t)
  {
    BufferReader &r = *cur;
    if (t == "u8") { uint8_t x; r >> x; }
    else if (t == "i32") { int32_t x; r >> x; }
    else if (t == "u64") { size_t x; r >> x; }
    else if (t == "f64") { double x; r >> x; }
    else if (t == "pod") { Pod x; r >> x; }
    else throw std::logic_error("driver: unknown probe type " + t);
    return Json("read-ok");
  }

  void readerState(Json &o, bool withSize = false)
  {
    Json st = Json::object();
    st.set("cursor", num(cur->cursor));
    st.set("end", cur->end());
    if (withSize) st.set("size", num(cur->buffer->size()));
    o.set("st", st);
  }

  Json step(const Json &act) override
  {
    const std::string &a = act["a"].str();
    const Json &arg = act["arg"];
    Json o = Json::object();
    if (failed && act.has("unless_failed") && act["unless_failed"].boolean()) {
      o.set("skipped", true); // not performed: the orchestrator drops it from the recorded trace
      return o;
    }
    const bool liveAction = arg.has("r");
    size_t curStart = 0;
    if (liveAction) {
      const size_t r = (size_t)arg["r"].num();
      if (r < 1 || r > live.size()) throw std::runtime_error("driver: no such live reader");
      cur = live[r - 1].r.get();
      curStart = cur->cursor;
    } else if (a == "Read" || a == "Probe" || a == "View") {
      cur = rd.get();
    }
    if (a == "NewReader") {
      // a BufferReader over the writer's own buffer, which keeps growing (possibly still empty)
      Live l;
      l.r.reset(new BufferReader(w.buffer));
      l.bytesAtCtor = w.buffer->size();
      l.movesAtCtor = moves;
      live.push_back(std::move(l));
    } else if (a == "Write") {
      const size_t before = w.buffer->size();
      const uint8_t *dataBefore = w.buffer->data();
      write(arg["item"]);
      if (w.buffer->data() != dataBefore) {
        ++moves;
        o.set("moved", true); // the writer's storage was (re)allocated: information for the vacuity guards
      }
      if (arg.has("cap") && arg["cap"].num() >= 0) {
        // the same item into a FixedBufferWriter of the capacity the specification computed for it
        FixedBufferWriter fw((size_t)arg["cap"].num());
        Json f = Json::object();
        try {
          emit(arg["item"], fw, snapshot.get());
          f.set("ret", "ok");
        } catch (const std::runtime_error &e) {
          if (std::string(e.what()).compare(0, 7, "driver:") == 0) throw;
          f.set("ret", "throws");
        }
        f.set("written", num(fw.getWrittenView()->size()));
        f.set("available", num(fw.available()));
        o.set("xfixed", f); // (named so that it sorts after len / predicted / total)
      }
      o.set("len", num(w.buffer->size() - before));
      o.set("total", num(w.buffer->size()));
      o.set("predicted", num(calc.writtenSize));
      Json tw = Json::object();
      tw.set("total", num(w2.buffer->size()));
      tw.set("predicted", num(calc2.writtenSize));
      o.set("twin", tw);
    } else if (a == "Open" || a == "OpenAll" || a == "OpenFrac") {
      // OpenAll: everything written; OpenFrac: the first pm/1000 of it (rounded down)
      const size_t total = w.buffer->size();
      open(a == "Open" ? (size_t)arg["k"].num() : a == "OpenAll" ? total : (total * (size_t)arg["pm"].num()) / 1000);
      readerState(o, true);
    } else if (a == "Read" || a == "Probe") {
      if (!cur) throw std::runtime_error("driver: no reader");
      try {
        o.set("ret", a == "Read" ? readItem(arg) : probe(arg["t"].str()));
      } catch (const std::logic_error &e) {
        if (std::string(e.what()).compare(0, 7, "driver:") == 0) throw;
        o.set("ret", "throws");
        failed = true;
        if (a == "Read") discardDest(arg);
      } catch (const std::exception &) {
        o.set("ret", "throws");
        failed = true;
        if (a == "Read") discardDest(arg);
      }
      readerState(o);
    } else if (a == "View" || a == "ViewRest" || a == "ViewOver") {
      if (!cur) throw std::runtime_error("driver: no reader");
      // n < 0: 2^64 + n; ViewRest / ViewOver (live readers): everything written so far / one byte more
      const size_t cnt = a == "View" ? sizeFromCode(arg["n"].num()) : cur->buffer->size() - cur->cursor + (a == "ViewOver" ? 1 : 0);
      try {
        auto view = cur->getView<uint8_t>(cnt);
        const size_t vs = view->size();
        o.set("ret", num(vs));
        // use the view the way its receiver would: every byte of it (inside the buffer: silent)
        if (vs <= cur->buffer->size()) {
          volatile unsigned sum = 0;
          for (size_t i = 0; i < vs; ++i) sum = sum + (*view)[i];
        }
      } catch (const std::exception &) {
        o.set("ret", "throws");
      }
      readerState(o);
    } else
      throw std::runtime_error("driver: unknown action " + a);
    if (liveAction && (a == "Read" || a == "View" || a == "ViewRest")) {
      // information for the vacuity guards (not compared): were the bytes just read written after the reader
      // was constructed, and how often has the writer's storage moved since then
      const Live &l = live[(size_t)arg["r"].num() - 1];
      o.set("late", curStart >= l.bytesAtCtor && cur->cursor > curStart);
      o.set("moves", num(moves - l.movesAtCtor));
    }
    if (liveMode || !live.empty() || liveAction) {
      // every live reader as seen from outside, after every step
      Json rs = Json::array();
      for (auto &l : live) {
        Json st = Json::object();
        st.set("cursor", num(l.r->cursor));
        st.set("end", l.r->end());
        st.set("avail", num(l.r->buffer->size() - l.r->cursor));
        rs.push(st);
      }
      o.set("rs", rs);
    }
    return o;
  }
};

// ---------------------------------------------------------------------------
struct FixedWorld : IWorld
{
  std::unique_ptr<FixedBufferWriter> fw;
  std::unique_ptr<FixedBufferWriter> twin; // same capacity, same calls, used alternately with fw by the same thread
  std::shared_ptr<FixedArray<uint8_t>::View> early; // a getWrittenView() the caller has kept
  uint8_t *resPtr = nullptr, *resPtrTwin = nullptr; // what the most recent reserve() returned
  size_t resLen = 0;

  // run-length form of a byte range (lossless): [{b, n}, ...]
  static Json runs(const AbstractArray<uint8_t> &v, size_t limit)
  {
    Json a = Json::array();
    const size_t n = v.size();
    if (n > limit) return Json("view-larger-than-buffer:" + std::to_string(n));
    size_t i = 0;
    while (i < n) {
      size_t j = i;
      while (j < n && v[j] == v[i]) ++j;
      Json r = Json::object();
      r.set("b", (int)v[i]);
      r.set("n", num(j - i));
      a.push(r);
      i = j;
    }
    return a;
  }

  static Json state(FixedBufferWriter &f)
  {
    Json st = Json::object();
    st.set("available", num(f.available()));
    st.set("capacity", num(f.capacity()));
    auto view = f.getWrittenView();
    const size_t n = view->size();
    st.set("wsize", num(n));
    st.set("runs", runs(*view, f.capacity()));
    if (f.capacity() <= 4096) { // the bytes themselves for the small instances
      if (n <= f.capacity()) {
        Json a = Json::array();
        for (size_t i = 0; i < n; ++i) a.push(Json((int)(*view)[i]));
        st.set("written", a);
      } else {
        st.set("written", "view-larger-than-buffer:" + std::to_string(n));
      }
    }
    return st;
  }

  // one call on one instance: "ok" / "throws"
  static const char *put(FixedBufferWriter &f, bool isWrite, long long n, uint8_t b, uint8_t *&res)
  {
    const size_t size = sizeFromCode(n);
    try {
      if (isWrite) {
        if (n < 0) throw std::logic_error("driver: a write of a huge size needs a source of that size");
        std::vector<uint8_t> src((size_t)n, b);
        f.write(src.data(), size);
      } else {
        void *mem = f.reserve(size);
        res = (uint8_t *)mem;
        if (n > 0) std::memset(mem, b, size); // the caller fills what it reserved
      }
      return "ok";
    } catch (const std::logic_error &e) {
      if (std::string(e.what()).compare(0, 7, "driver:") == 0) throw;
      return "throws";
    } catch (const std::exception &) {
      return "throws";
    }
  }

  Json step(const Json &act) override
  {
    const std::string &a = act["a"].str();
    const Json &arg = act["arg"];
    Json o = Json::object();
    if (a == "New") {
      fw.reset(new FixedBufferWriter((size_t)arg["cap"].num()));
      twin.reset(new FixedBufferWriter((size_t)arg["cap"].num()));
      o.set("ret", "ok");
    } else if (a == "Write" || a == "Reserve") {
      if (!fw) throw std::runtime_error("driver: no writer");
      const long long n = arg["n"].num();
      const uint8_t b = (uint8_t)arg["b"].num();
      uint8_t *r1 = nullptr, *r2 = nullptr;
      const std::string ret = put(*fw, a == "Write", n, b, r1);
      const std::string ret2 = put(*twin, a == "Write", n, b, r2);
      o.set("ret", ret);
      if (ret2 != ret) o.set("twin_ret", ret2);
      if (a == "Reserve" && ret == "ok" && n > 0) {
        resPtr = r1;
        resPtrTwin = r2;
        resLen = (size_t)n;
      }
    } else if (a == "TakeView") {
      early = fw->getWrittenView();
      o.set("ret", "ok");
    } else if (a == "Refill") {
      // the most recent reservation is filled (again) now, through the pointers reserve() returned then
      if (!resPtr) throw std::runtime_error("driver: nothing reserved");
      std::memset(resPtr, (uint8_t)arg["b"].num(), resLen);
      if (resPtrTwin) std::memset(resPtrTwin, (uint8_t)arg["b"].num(), resLen);
      o.set("ret", "ok");
    } else
      throw std::runtime_error("driver: unknown action " + a);
    o.set("st", state(*fw));
    o.set("twin", state(*twin));
    if (early) {
      Json e = Json::object();
      e.set("n", num(early->size()));
      e.set("runs", runs(*early, fw->capacity()));
      o.set("early", e);
    } else
      o.set("early", "none");
    return o;
  }
};

struct World
{
  IWorld *w;
  World(const Json &hist)
  {
    if (hist["kind"].str() == "fixed") w = new FixedWorld();
    else w = new StreamWorld(hist.has("rbuf") ? hist["rbuf"].str() : std::string("direct"), hist.has("live") && hist["live"].boolean());
  }
  ~World() { delete w; }
  Json step(const Json &act) { return w->step(act); }
};

int main(int argc, char **argv)
{
  return vdrv::run<World>(argc, argv);
}
