// Conformance driver for spec/utility/Observers.tla (property C19, observers): see world.h
#include "world.h"

int main(int argc, char **argv)
{
  return vdrv::run<ObserversWorld>(argc, argv);
}
