// World of the conformance driver for spec/utility/Observers.tla (property C19, observers).
// Interprets the actions of the specification on real rkcommon Observable /
// Observer objects and reports what wasNotified() returned.  It never decides:
// expected values come from TLC (replay) or the observations are validated by
// TLC (ObserversTrace).
//
// Objects live on the heap (new / delete), so that construction and destruction
// are actions of the history and a dangling registration is a heap-use-after-free
// that ASan turns into a crash event.  The driver keeps only its own books of
// which slot is occupied; an action that cannot legally be performed on the real
// objects (occupied / empty slot) is refused with {"skipped":true}, which the
// trace specification accepts only if its own guard is false as well.
//
// Every destruction is an action of the history (DestroyObservable,
// DestroyObserver, Teardown{order} = everything alive, observers first or
// observables first), so a crash is attributed to the step that caused it.
// Objects still alive when the history ends are deliberately not destroyed.
//
// input line keys besides "h": "nw" (observer slots, for PollAll), "variant"
// ("plain": stand-alone objects; "derived": Observable as a base class and the
// Observer as a member, the two uses Observer.h describes; "mi": as "derived" but
// the Observable is the SECOND base of a class with multiple inheritance).
#pragma once
#include <memory>
#include <string>
#include <vector>
#include "driver.h"
#include "rkcommon/utility/Observer.h"

using rkcommon::utility::Observable;
using rkcommon::utility::Observer;
using vj::Json;

// the "base class" use: something that is an Observable and has state of its own
struct Subject : public Observable
{
  std::vector<int> payload;
  Subject() : payload(7, 42) {}
  ~Subject() override {}
};

// multiple inheritance: the Observable sub-object is not at offset 0 of the complete object
struct OtherBase
{
  virtual ~OtherBase() {}
  long words[3];
  OtherBase() { words[0] = words[1] = words[2] = 7; }
};
struct SubjectMI : public OtherBase, public Observable
{
  std::vector<int> payload;
  SubjectMI() : payload(3, 9) {}
  ~SubjectMI() override {}
};

// the "member" use: something that holds an Observer
struct Holder
{
  int before{1};
  Observer observer;
  int after{2};
  explicit Holder(Observable &o) : observer(o) {}
};

struct ObserversWorld
{
  static const int MAXS = 8;
  int nw{3};
  bool derived{false};
  bool mi{false};
  Observable *subj[MAXS + 1];
  Observer *plainObs[MAXS + 1];
  Holder *holder[MAXS + 1];

  explicit ObserversWorld(const Json &hist)
  {
    for (int i = 0; i <= MAXS; ++i) { subj[i] = nullptr; plainObs[i] = nullptr; holder[i] = nullptr; }
    if (hist.has("nw")) nw = (int)hist["nw"].num();
    if (nw > MAXS) nw = MAXS;
    mi = hist.has("variant") && hist["variant"].str() == "mi";
    derived = mi || (hist.has("variant") && hist["variant"].str() == "derived");
  }

  bool watcherAlive(int b) const { return plainObs[b] != nullptr || holder[b] != nullptr; }
  Observer &watcher(int b) { return holder[b] ? holder[b]->observer : *plainObs[b]; }
  void destroyWatcher(int b)
  {
    delete plainObs[b];
    plainObs[b] = nullptr;
    delete holder[b];
    holder[b] = nullptr;
  }
  void destroySubject(int o)
  {
    delete subj[o];   // virtual destructor
    subj[o] = nullptr;
  }

  ~ObserversWorld() {}   // what is left alive is leaked on purpose: destructions are actions of the history

  bool anythingAlive() const
  {
    for (int i = 1; i <= MAXS; ++i)
      if (subj[i] || watcherAlive(i)) return true;
    return false;
  }

  static Json skipped()
  {
    Json o = Json::object();
    o.set("skipped", true);
    return o;
  }
  static bool slotOk(long long i) { return i >= 1 && i <= MAXS; }

  Json step(const Json &act)
  {
    const std::string &a = act["a"].str();
    const Json &arg = act["arg"];
    Json out = Json::object();
    if (a == "CreateObservable") {
      long long o = arg["o"].num();
      if (!slotOk(o) || subj[o]) return skipped();
      if (mi) subj[o] = static_cast<Observable *>(new SubjectMI());   // pointer adjusted to the second base
      else subj[o] = derived ? new Subject() : new Observable();
      out.set("ret", "void");
    } else if (a == "CreateObserver") {
      long long b = arg["b"].num(), o = arg["o"].num();
      if (!slotOk(b) || !slotOk(o) || watcherAlive((int)b) || !subj[o]) return skipped();
      if (derived) holder[b] = new Holder(*subj[o]);
      else plainObs[b] = new Observer(*subj[o]);
      out.set("ret", "void");
    } else if (a == "Notify") {
      long long o = arg["o"].num();
      if (!slotOk(o) || !subj[o]) return skipped();
      subj[o]->notifyObservers();
      out.set("ret", "void");
    } else if (a == "Poll") {
      long long b = arg["b"].num();
      if (!slotOk(b) || !watcherAlive((int)b)) return skipped();
      bool r = watcher((int)b).wasNotified();
      out.set("ret", r);
    } else if (a == "PollAll") {
      bool any = false;
      for (int b = 1; b <= nw; ++b) any = any || watcherAlive(b);
      if (!any) return skipped();
      Json r = Json::array();
      for (int b = 1; b <= nw; ++b) {
        if (!watcherAlive(b)) r.push(Json(-1));
        else r.push(Json(watcher(b).wasNotified() ? 1 : 0));
      }
      out.set("ret", r);
    } else if (a == "DestroyObservable") {
      long long o = arg["o"].num();
      if (!slotOk(o) || !subj[o]) return skipped();
      destroySubject((int)o);
      out.set("ret", "void");
    } else if (a == "DestroyObserver") {
      long long b = arg["b"].num();
      if (!slotOk(b) || !watcherAlive((int)b)) return skipped();
      destroyWatcher((int)b);
      out.set("ret", "void");
    } else if (a == "Teardown") {
      const std::string &order = arg["order"].str();
      if ((order != "observers_first" && order != "observables_first") || !anythingAlive()) return skipped();
      if (order == "observables_first")
        for (int o = 1; o <= MAXS; ++o) if (subj[o]) destroySubject(o);
      for (int b = 1; b <= MAXS; ++b) if (watcherAlive(b)) destroyWatcher(b);
      for (int o = 1; o <= MAXS; ++o) if (subj[o]) destroySubject(o);
      out.set("ret", "void");
    } else {
      out.set("ret", "unknown-action");
    }
    return out;
  }
};
