// Conformance driver for spec/utility/ObserversWide.tla (property C19): wide and
// bursty observer histories.  One step of a history is a macro action of the
// specification - a range of observer ids or a number of repetitions; the driver
// performs the thousands of real calls on real, heap-allocated Observable /
// Observer objects (ASan build: a dangling registration is a crash event) and
// reports what wasNotified() returned:
//   PollRange{lo,hi}  -> trues (ids that reported true, ascending), empty (slots
//                        without an observer), polled
//   PollMany{b,k}     -> trues (how many of the k polls were true), first (whether
//                        the first one was)
// everything else -> ret "void".  The driver never decides.
#include <string>
#include <vector>
#include "driver.h"
#include "rkcommon/utility/Observer.h"

using rkcommon::utility::Observable;
using rkcommon::utility::Observer;
using vj::Json;

struct WideWorld
{
  Observable *subj[3];
  std::vector<Observer *> w;   // by id; nullptr = no observer

  explicit WideWorld(const Json &)
  {
    subj[0] = subj[1] = subj[2] = nullptr;
  }
  ~WideWorld() {}   // destructions are actions of the history; what is left is leaked on purpose

  static Json skipped()
  {
    Json o = Json::object();
    o.set("skipped", true);
    return o;
  }
  static Json done()
  {
    Json o = Json::object();
    o.set("ret", "void");
    return o;
  }
  bool alive(long long id) const { return id >= 1 && (size_t)id < w.size() && w[(size_t)id] != nullptr; }
  void need(long long id)
  {
    if ((size_t)id >= w.size()) w.resize((size_t)id + 1, nullptr);
  }

  Json step(const Json &act)
  {
    const std::string &a = act["a"].str();
    const Json &arg = act["arg"];
    if (a == "CreateObservable") {
      long long o = arg["o"].num();
      if (o < 1 || o > 2 || subj[o]) return skipped();
      subj[o] = new Observable();
      return done();
    }
    if (a == "DestroyObservable") {
      long long o = arg["o"].num();
      if (o < 1 || o > 2 || !subj[o]) return skipped();
      delete subj[o];
      subj[o] = nullptr;
      return done();
    }
    if (a == "CreateRange") {
      long long lo = arg["lo"].num(), hi = arg["hi"].num(), o = arg["o"].num();
      if (o < 1 || o > 2 || !subj[o] || lo < 1) return skipped();
      for (long long id = lo; id <= hi; ++id) if (alive(id)) return skipped();
      if (hi >= lo) need(hi);
      for (long long id = lo; id <= hi; ++id) w[(size_t)id] = new Observer(*subj[o]);
      return done();
    }
    if (a == "Notify" || a == "NotifyMany") {
      long long o = arg["o"].num();
      long long k = a == "Notify" ? 1 : arg["k"].num();
      if (o < 1 || o > 2 || !subj[o] || k < 1) return skipped();
      for (long long j = 0; j < k; ++j) subj[o]->notifyObservers();
      return done();
    }
    if (a == "PollRange") {
      long long lo = arg["lo"].num(), hi = arg["hi"].num();
      Json trues = Json::array();
      long long empty = 0, polled = 0;
      for (long long id = lo; id <= hi; ++id) {
        if (!alive(id)) { ++empty; continue; }
        ++polled;
        if (w[(size_t)id]->wasNotified()) trues.push(Json(id));
      }
      Json o = Json::object();
      o.set("trues", trues);
      o.set("empty", empty);
      o.set("polled", polled);
      return o;
    }
    if (a == "PollMany") {
      long long b = arg["b"].num(), k = arg["k"].num();
      if (!alive(b) || k < 1) return skipped();
      long long trues = 0;
      bool first = false;
      for (long long j = 0; j < k; ++j) {
        bool r = w[(size_t)b]->wasNotified();
        if (r) ++trues;
        if (j == 0) first = r;
      }
      Json o = Json::object();
      o.set("trues", trues);
      o.set("first", first);
      return o;
    }
    if (a == "DestroySel") {
      long long lo = arg["lo"].num(), hi = arg["hi"].num(), m = arg["m"].num(), r = arg["r"].num();
      if (m < 1) return skipped();
      for (long long id = lo; id <= hi; ++id)
        if (id % m == r && alive(id)) {
          delete w[(size_t)id];
          w[(size_t)id] = nullptr;
        }
      return done();
    }
    if (a == "Churn") {
      long long o = arg["o"].num(), k = arg["k"].num();
      if (o < 1 || o > 2 || !subj[o] || k < 1) return skipped();
      for (long long j = 0; j < k; ++j) {
        Observer *t = new Observer(*subj[o]);
        delete t;
      }
      return done();
    }
    if (a == "Teardown") {
      const std::string &order = arg["order"].str();
      if (order == "observables_first")
        for (int o = 1; o <= 2; ++o) if (subj[o]) { delete subj[o]; subj[o] = nullptr; }
      for (size_t id = 1; id < w.size(); ++id) if (w[id]) { delete w[id]; w[id] = nullptr; }
      for (int o = 1; o <= 2; ++o) if (subj[o]) { delete subj[o]; subj[o] = nullptr; }
      return done();
    }
    Json o = Json::object();
    o.set("ret", "unknown-action");
    return o;
  }
};

int main(int argc, char **argv)
{
  return vdrv::run<WideWorld>(argc, argv);
}
