// Multi-threaded driver for property C19: THREAD-CONFINED observer groups.  Every
// thread owns its observables and observers (an ObserversWorld of its own) and
// performs its own history on them; the threads share nothing but the process-wide
// TimeStamp counter behind notifyObservers() / wasNotified().  "Every TimeStamp
// freshly created or renewed, on any thread, carries a value distinct from all
// others and larger than every value its thread obtained before" is exactly what
// makes each thread's observers behave as if the thread were alone - so every
// thread's recorded history must be a behaviour of Observers.tla (validated by
// TLC, ObserversTrace, one execution per thread).  std::thread only: a
// ThreadSanitizer build is sound.
//
// Action Threads{lists:[[{a,arg},...],...], sync}: thread t performs lists[t];
// all threads start together and, with sync > 0, meet at a barrier every `sync`
// steps.  Observation: {"threads": [[obs,...],...]}.  The driver never decides.
#include <atomic>
#include <thread>
#include "world.h"

namespace {
struct Barrier
{
  int n;
  std::atomic<int> arrived{0};
  std::atomic<int> phase{0};
  explicit Barrier(int n_) : n(n_) {}
  void wait()
  {
    int p = phase.load(std::memory_order_acquire);
    if (arrived.fetch_add(1, std::memory_order_acq_rel) + 1 == n) {
      arrived.store(0, std::memory_order_relaxed);
      phase.store(p + 1, std::memory_order_release);
    } else {
      while (phase.load(std::memory_order_acquire) == p) std::this_thread::yield();
    }
  }
};

void worker(const Json *hist, const Json *list, long sync, size_t steps, std::atomic<int> *ready, std::atomic<bool> *go, Barrier *barrier,
            std::vector<Json> *out)
{
  ObserversWorld world(*hist);
  out->reserve(list->size());
  ready->fetch_add(1);
  while (!go->load(std::memory_order_acquire)) {}
  for (size_t k = 0; k < steps; ++k) {   // every thread iterates `steps` times so that the barriers match
    if (sync > 0 && k > 0 && k % (size_t)sync == 0) barrier->wait();
    if (k < list->size()) out->push_back(world.step((*list)[k]));
  }
}
} // namespace

struct MtWorld
{
  Json meta;
  explicit MtWorld(const Json &hist) : meta(hist) {}

  Json step(const Json &act)
  {
    Json o = Json::object();
    if (act["a"].str() != "Threads") {
      o.set("error", "unknown-action");
      return o;
    }
    const Json &lists = act["arg"]["lists"];
    long sync = act["arg"].has("sync") ? (long)act["arg"]["sync"].num() : 0;
    const int T = (int)lists.size();
    size_t steps = 0;
    for (int t = 0; t < T; ++t) steps = std::max(steps, lists[(size_t)t].size());
    std::vector<std::vector<Json>> outs((size_t)T);
    std::atomic<int> ready(0);
    std::atomic<bool> go(false);
    Barrier barrier(T);
    std::vector<std::thread> th;
    for (int t = 0; t < T; ++t) th.emplace_back(worker, &meta, &lists[(size_t)t], sync, steps, &ready, &go, &barrier, &outs[(size_t)t]);
    while (ready.load() < T) std::this_thread::yield();
    go.store(true, std::memory_order_release);
    for (auto &x : th) x.join();
    Json all = Json::array();
    for (int t = 0; t < T; ++t) {
      Json one = Json::array();
      for (const Json &j : outs[(size_t)t]) one.push(j);
      all.push(one);
    }
    o.set("threads", all);
    return o;
  }
};

int main(int argc, char **argv)
{
  return vdrv::run<MtWorld>(argc, argv);
}
