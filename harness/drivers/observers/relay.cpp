// Relay driver for spec/utility/ObserversRelay.tla (property C19, observers): a SEQUENTIAL history whose steps are
// executed by DIFFERENT threads.  The world owns K long-lived worker threads; every step of the history carries the
// thread `by` (1..K) that has to perform it.  The driver's main thread hands the step to worker `by` and waits until
// it has finished (mutex + condition variable: the end of every step happens-before the beginning of the next one),
// so the history stays totally ordered and race-free - only the executing thread changes.  The actions themselves are
// the ones of world.h (the same real Observable / Observer objects); in addition
//   Warm{pre:[n1..nK]}   the start state: workers 1, 2, ... K, one after the other, draw n_t time stamps nobody looks at
//                        (n_t = 0: that thread has never drawn a stamp when the history starts)
//   Draw{n} by t         worker t draws n time stamps nobody looks at
// A drawn stamp = a TimeStamp created or renewed.  The driver never decides: expected values are TLC's (replay) or the
// observations are validated by TLC (ObserversRelayTrace).
//
// input line keys: "nt" (number of workers, default 3) besides the ones of world.h.  std::thread only.
#include <condition_variable>
#include <mutex>
#include <thread>
#include "world.h"
#include "rkcommon/utility/TimeStamp.h"

using rkcommon::utility::TimeStamp;

struct RelayWorld
{
  static const int MAXT = 8;
  ObserversWorld world;
  int nt{3};

  // hand-over: `turn` = worker that has to run `job` now (0: nobody, the main thread goes on)
  std::mutex m;
  std::condition_variable cv;
  int turn{0};
  bool quit{false};
  const Json *job{nullptr};
  Json result;
  std::vector<std::thread> workers;

  static void drawStamps(long long n)
  {
    if (n <= 0) return;
    TimeStamp s;                                   // one drawn by construction
    for (long long k = 1; k < n; ++k) s.renew();   // n - 1 by renewal
  }

  Json perform(const Json &act)
  {
    const std::string &a = act["a"].str();
    if (a == "Draw") {
      drawStamps((long long)act["arg"]["n"].num());
      Json o = Json::object();
      o.set("ret", "void");
      return o;
    }
    return world.step(act);
  }

  void loop(int me)
  {
    std::unique_lock<std::mutex> lk(m);
    for (;;) {
      cv.wait(lk, [&] { return quit || turn == me; });
      if (quit) return;
      Json r;
      try {
        r = perform(*job);
      } catch (const std::exception &e) {
        r = Json::object();
        r.set("unexpected_exception", std::string(typeid(e).name()) + ": " + e.what());
      } catch (...) {
        r = Json::object();
        r.set("unexpected_exception", "unknown");
      }
      r.set("on", me);   // which worker really performed the step (self-check of the orchestrator, not a contract observable)
      result = r;
      turn = 0;
      cv.notify_all();
    }
  }

  // runs `act` on worker t and returns when it is done
  Json on(int t, const Json &act)
  {
    std::unique_lock<std::mutex> lk(m);
    job = &act;
    turn = t;
    cv.notify_all();
    cv.wait(lk, [&] { return turn == 0; });
    job = nullptr;
    return result;
  }

  explicit RelayWorld(const Json &hist) : world(hist)
  {
    if (hist.has("nt")) nt = (int)hist["nt"].num();
    if (nt < 1) nt = 1;
    if (nt > MAXT) nt = MAXT;
    for (int t = 1; t <= nt; ++t) workers.emplace_back(&RelayWorld::loop, this, t);
  }

  ~RelayWorld()
  {
    {
      std::unique_lock<std::mutex> lk(m);
      quit = true;
      cv.notify_all();
    }
    for (auto &w : workers) w.join();
  }

  Json step(const Json &act)
  {
    const std::string &a = act["a"].str();
    Json out = Json::object();
    if (a == "Warm") {
      const Json &pre = act["arg"]["pre"];
      if ((int)pre.size() != nt) return ObserversWorld::skipped();
      for (int t = 1; t <= nt; ++t) {
        Json d = Json::object(), arg = Json::object();
        arg.set("n", pre[(size_t)(t - 1)]);
        d.set("a", "Draw");
        d.set("arg", arg);
        on(t, d);
      }
      out.set("ret", "void");
      return out;
    }
    long long by = act.has("by") ? (long long)act["by"].num() : 0;
    if (by < 1 || by > nt) return ObserversWorld::skipped();
    return on((int)by, act);
  }
};

int main(int argc, char **argv)
{
  return vdrv::run<RelayWorld>(argc, argv);
}
