// Conformance driver for spec/containers/OrderedMap.tla (property C10, FlatMap part).
// Interprets the actions of the specification on a real rkcommon FlatMap and
// reports the projection the specification's `last.exp` talks about.
// Variants map the model's integer keys/values onto concrete KEY/VALUE types.
#include <string>
#include "driver.h"
#include "rkcommon/containers/FlatMap.h"

using rkcommon::containers::FlatMap;
using vj::Json;

template <typename T> struct Conv;
template <> struct Conv<int>
{
  static int to(long long v) { return (int)v; }
  static Json from(const int &v) { return Json(v); }
};
template <> struct Conv<std::string>
{
  // 0 <-> "" (the default-constructed value); n <-> "s<n>"
  static std::string to(long long v) { return v == 0 ? std::string() : "s" + std::to_string(v); }
  static Json from(const std::string &s)
  {
    if (s.empty()) return Json(0);
    if (s[0] != 's') return Json("unmapped:" + s);
    return Json(atoll(s.c_str() + 1));
  }
};

struct IWorld
{
  virtual ~IWorld() {}
  virtual Json step(const Json &act) = 0;
};

template <typename KEY, typename VALUE>
struct MapWorld : IWorld
{
  FlatMap<KEY, VALUE> map;

  Json items() const
  {
    Json a = Json::array();
    for (auto it = map.begin(); it != map.end(); ++it) { // non-const object: mutable iterators
      Json p = Json::array();
      p.push(Conv<KEY>::from(it->first));
      p.push(Conv<VALUE>::from(it->second));
      a.push(p);
    }
    return a;
  }

  Json step(const Json &act) override
  {
    const std::string &a = act["a"].str();
    const Json &arg = act["arg"];
    Json o = Json::object();
    if (a == "Put") {
      VALUE &r = (map[Conv<KEY>::to(arg["k"].num())] = Conv<VALUE>::to(arg["v"].num()));
      o.set("ret", Conv<VALUE>::from(r));
    } else if (a == "GetOrInsert") {
      VALUE v = map[Conv<KEY>::to(arg["k"].num())];
      o.set("ret", Conv<VALUE>::from(v));
    } else if (a == "At") {
      // const and non-const at() are evaluated independently: both must give the specified outcome
      Json r1, r2;
      try {
        const FlatMap<KEY, VALUE> &cm = map;
        r1 = Conv<VALUE>::from(cm.at(Conv<KEY>::to(arg["k"].num())));
      } catch (const std::out_of_range &) {
        r1 = Json("throws");
      }
      try {
        r2 = Conv<VALUE>::from(map.at(Conv<KEY>::to(arg["k"].num())));
      } catch (const std::out_of_range &) {
        r2 = Json("throws");
      }
      if (r1 == r2) o.set("ret", r1);
      else o.set("ret", "const at(): " + r1.dump() + " / non-const at(): " + r2.dump());
    } else if (a == "AtAssign") {
      try {
        map.at(Conv<KEY>::to(arg["k"].num())) = Conv<VALUE>::to(arg["v"].num());
        o.set("ret", arg["v"]);
      } catch (const std::out_of_range &) {
        o.set("ret", "throws");
      }
    } else if (a == "Contains") {
      o.set("ret", map.contains(Conv<KEY>::to(arg["k"].num())));
    } else if (a == "Erase") {
      map.erase(Conv<KEY>::to(arg["k"].num()));
      o.set("ret", "void");
    } else if (a == "Clear") {
      map.clear();
      o.set("ret", "void");
    } else if (a == "AtIndex") {
      Json r1, r2;
      try {
        const FlatMap<KEY, VALUE> &cm = map;
        auto &p = cm.at_index((size_t)arg["i"].num());
        r1 = Json::array();
        r1.push(Conv<KEY>::from(p.first));
        r1.push(Conv<VALUE>::from(p.second));
      } catch (const std::out_of_range &) {
        r1 = Json("throws");
      }
      try {
        auto &q = map.at_index((size_t)arg["i"].num());
        r2 = Json::array();
        r2.push(Conv<KEY>::from(q.first));
        r2.push(Conv<VALUE>::from(q.second));
      } catch (const std::out_of_range &) {
        r2 = Json("throws");
      }
      if (r1 == r2) o.set("ret", r1);
      else o.set("ret", "const at_index(): " + r1.dump() + " / non-const at_index(): " + r2.dump());
    } else if (a == "IterRev") {
      Json r = Json::array();
      for (auto it = map.rbegin(); it != map.rend(); ++it) {
        Json p = Json::array();
        p.push(Conv<KEY>::from(it->first));
        p.push(Conv<VALUE>::from(it->second));
        r.push(p);
      }
      const FlatMap<KEY, VALUE> &cm = map;
      size_t n = 0;
      for (auto it = cm.crbegin(); it != cm.crend(); ++it) ++n;
      if (n != r.size()) r.push("crbegin/crend length differs");
      o.set("ret", r);
    } else if (a == "IterConst") {
      const FlatMap<KEY, VALUE> &cm = map;
      Json r = Json::array();
      for (auto it = cm.cbegin(); it != cm.cend(); ++it) {
        Json p = Json::array();
        p.push(Conv<KEY>::from(it->first));
        p.push(Conv<VALUE>::from(it->second));
        r.push(p);
      }
      size_t n = 0;
      for (auto it = cm.begin(); it != cm.end(); ++it) ++n;
      if (n != r.size()) r.push("const begin/end length differs");
      o.set("ret", r);
    } else if (a == "Reserve") {
      map.reserve((size_t)arg["n"].num());
      o.set("ret", "void");
    } else {
      o.set("ret", "unknown action " + a);
    }
    o.set("size", (long long)map.size());
    o.set("empty", map.empty() != 0);
    o.set("items", items());
    return o;
  }
};

struct World
{
  IWorld *w;
  World(const Json &hist)
  {
    const std::string v = hist["variant"].str();
    if (v == "ss") w = new MapWorld<std::string, std::string>();
    else if (v == "si") w = new MapWorld<std::string, int>();
    else if (v == "is") w = new MapWorld<int, std::string>();
    else w = new MapWorld<int, int>();
  }
  ~World() { delete w; }
  Json step(const Json &act) { return w->step(act); }
};

int main(int argc, char **argv)
{
  return vdrv::run<World>(argc, argv);
}
