// Conformance driver for spec/containers/OrderedMap.tla (property C10, FlatMap part).
// Interprets the actions of the specification on real rkcommon FlatMaps and
// reports the projection the specification's `last.exp` talks about.  It decides
// nothing: where two overloads / iterator families must agree it reports both
// results as one string when they differ, which no expected value equals.
//
// Variants map the model's integer keys/values onto concrete KEY/VALUE types:
//   ii  FlatMap<int, int>            ss  FlatMap<std::string, std::string>
//   si  FlatMap<std::string, int>    is  FlatMap<int, std::string>
//   Li  FlatMap<int64_t, int>        iu  FlatMap<int, std::unique_ptr<int>>   (move-only values)
//   tt  FlatMap<TKey, TVal>          key copies / value default constructions throw on request
// "shadow" (input line): between any two steps an unrelated FlatMap of the same type is
// written, read and erased from; nothing of it is reported (instances must not share state).
// "keymap" (input line, default 0) selects the concrete keys / values the model
// integers 0, 1, 2 stand for: type extremes and negative ints, keys equal modulo
// 2^8 / 2^16 / 2^32, strings that are empty, contain NUL or bytes >= 0x80, that
// are equal up to a NUL / up to a long prefix.  Every map is injective on the
// model integers used with it (the inverse is applied to what the map returns;
// anything outside comes back as "unmapped:...").
#include <cstdint>
#include <climits>
#include <memory>
#include <string>
#include <type_traits>
#include "driver.h"
#include "rkcommon/containers/FlatMap.h"

using rkcommon::containers::FlatMap;
using vj::Json;

static int g_keymap = 0;

static std::string hexOf(const std::string &s)
{
  static const char *d = "0123456789abcdef";
  std::string r;
  for (size_t i = 0; i < s.size() && i < 40; ++i) {
    r += d[(unsigned char)s[i] >> 4];
    r += d[(unsigned char)s[i] & 15];
  }
  if (s.size() > 40) r += "...(" + std::to_string(s.size()) + " bytes)";
  return r;
}

// ---- concrete keys -----------------------------------------------------------
template <typename T> struct KeyConv;
template <> struct KeyConv<int>
{
  static bool table(long long v, int &out)
  {
    if (v < 0 || v > 2) return false;
    static const int t1[3] = {INT_MIN, -1, INT_MAX};
    static const int t2[3] = {0, 256, 65536};
    static const int t3[3] = {1, 257, 65537};
    static const int t4[3] = {-256, -65536, INT_MIN + 1};
    switch (g_keymap) {
    case 1: out = t1[v]; return true;
    case 2: out = t2[v]; return true;
    case 3: out = t3[v]; return true;
    case 4: out = t4[v]; return true;
    }
    return false;
  }
  static int to(long long v) { int o; return table(v, o) ? o : (int)v; }
  static Json from(const int &k)
  {
    for (long long v = 0; v <= 2; ++v) { int o; if (table(v, o) && o == k) return Json(v); }
    if (g_keymap != 0 && k >= 0 && k <= 2) return Json("unmapped:" + std::to_string(k));
    return Json(k);
  }
};
template <> struct KeyConv<int64_t>
{
  static bool table(long long v, int64_t &out)
  {
    if (v < 0 || v > 2) return false;
    static const int64_t t1[3] = {INT64_MIN, (int64_t)1 << 32, INT64_MAX};
    static const int64_t t2[3] = {0, (int64_t)1 << 32, (int64_t)1 << 33};
    static const int64_t t3[3] = {-1, ((int64_t)1 << 32) - 1, ((int64_t)1 << 32) + 1};
    switch (g_keymap) {
    case 1: out = t1[v]; return true;
    case 2: out = t2[v]; return true;
    case 3: out = t3[v]; return true;
    }
    return false;
  }
  static int64_t to(long long v) { int64_t o; return table(v, o) ? o : (int64_t)v; }
  static Json from(const int64_t &k)
  {
    for (long long v = 0; v <= 2; ++v) { int64_t o; if (table(v, o) && o == k) return Json(v); }
    if (g_keymap != 0 && k >= 0 && k <= 2) return Json("unmapped:" + std::to_string((long long)k));
    if (k > INT_MAX || k < INT_MIN) return Json("unmapped:" + std::to_string((long long)k));
    return Json((long long)k);
  }
};
static const std::string &longPrefix(char c)
{
  static const std::string k(1000, 'k'), v(300, 'v');
  return c == 'k' ? k : v;
}
template <> struct KeyConv<std::string>
{
  // plain: 0 <-> "" (the default-constructed key), n <-> "s<n>"
  static bool table(long long v, std::string &out)
  {
    if (v < 0 || v > 2) return false;
    switch (g_keymap) {
    case 1: out = std::string((size_t)v, '\0'); return true;                                  // "", "\0", "\0\0"
    case 2: out = v == 0 ? std::string("a") : v == 1 ? std::string("a\0", 2) : std::string("a\0b", 3); return true;
    case 3: out = v == 0 ? std::string("\xff") : v == 1 ? std::string("\x80") : std::string("\x7f\xff"); return true;
    case 4: out = v == 0 ? longPrefix('k') + "0" : v == 1 ? longPrefix('k') + "1" : longPrefix('k'); return true;
    }
    return false;
  }
  static std::string to(long long v)
  {
    std::string o;
    if (table(v, o)) return o;
    return v == 0 ? std::string() : "s" + std::to_string(v);
  }
  static Json from(const std::string &s)
  {
    for (long long v = 0; v <= 2; ++v) { std::string o; if (table(v, o) && o == s) return Json(v); }
    if (s.empty()) return g_keymap == 0 ? Json(0) : Json("unmapped:<empty>");
    if (s[0] != 's' || s.size() < 2 || s.size() > 11) return Json("unmapped:" + hexOf(s));
    for (size_t i = 1; i < s.size(); ++i) if (s[i] < '0' || s[i] > '9') return Json("unmapped:" + hexOf(s));
    long long v = atoll(s.c_str() + 1);
    if (g_keymap != 0 && v <= 2) return Json("unmapped:" + hexOf(s));
    return Json(v);
  }
};

// ---- concrete values (0 is always the default-constructed VALUE()) -------------
template <typename T> struct ValConv;
template <> struct ValConv<int>
{
  static int to(long long v) { return (int)v; }
  static Json from(const int &v) { return Json(v); }
};
template <> struct ValConv<std::string>
{
  static bool table(long long v, std::string &out)
  {
    if (v < 1 || v > 2) return false;
    switch (g_keymap) {
    case 1: out = std::string((size_t)v, '\0'); return true;                 // "\0", "\0\0"
    case 4: out = longPrefix('v') + std::to_string(v); return true;          // heap strings, equal up to a long prefix
    }
    return false;
  }
  static std::string to(long long v)
  {
    std::string o;
    if (table(v, o)) return o;
    return v == 0 ? std::string() : "s" + std::to_string(v);
  }
  static Json from(const std::string &s)
  {
    for (long long v = 1; v <= 2; ++v) { std::string o; if (table(v, o) && o == s) return Json(v); }
    if (s.empty()) return Json(0);
    if (s[0] != 's' || s.size() < 2 || s.size() > 11) return Json("unmapped:" + hexOf(s));
    for (size_t i = 1; i < s.size(); ++i) if (s[i] < '0' || s[i] > '9') return Json("unmapped:" + hexOf(s));
    return Json(atoll(s.c_str() + 1));
  }
};
template <> struct ValConv<std::unique_ptr<int>>
{
  static std::unique_ptr<int> to(long long v) { return std::unique_ptr<int>(v == 0 ? nullptr : new int((int)v)); }
  static Json from(const std::unique_ptr<int> &p) { return p ? Json(*p) : Json(0); }
};

// ---- key / value types whose copy / default construction throws on request -----
struct Boom : std::exception
{
  const char *what() const noexcept override { return "requested failure"; }
};
struct TKey
{
  int v;
  static bool armed;   // the next copy (construction or assignment) of a TKey throws
  explicit TKey(int x = 0) : v(x) {}
  TKey(const TKey &o) : v(o.v) { fire(); }
  TKey &operator=(const TKey &o) { fire(); v = o.v; return *this; }
  bool operator==(const TKey &o) const { return v == o.v; }
  bool operator!=(const TKey &o) const { return v != o.v; }
  static void fire() { if (armed) { armed = false; throw Boom(); } }
};
bool TKey::armed = false;
struct TVal
{
  int v;
  static bool armed;   // the next default construction of a TVal throws
  TVal() : v(0) { if (armed) { armed = false; throw Boom(); } }
  explicit TVal(int x) : v(x) {}
};
bool TVal::armed = false;
template <> struct KeyConv<TKey>
{
  static TKey to(long long v) { return TKey((int)v); }
  static Json from(const TKey &k) { return Json(k.v); }
};
template <> struct ValConv<TVal>
{
  static TVal to(long long v) { return TVal((int)v); }
  static Json from(const TVal &x) { return Json(x.v); }
};
template <typename K, typename V> struct Throwing
{
  static bool arm(const std::string &) { return false; }
  static void disarm() {}
};
template <> struct Throwing<TKey, TVal>
{
  static bool arm(const std::string &w)
  {
    if (w == "key") TKey::armed = true; else TVal::armed = true;
    return true;
  }
  static void disarm() { TKey::armed = false; TVal::armed = false; }
};

static const long long HASH_MOD = 65521;
static const long long PROBE_IDX[] = {127, 128, 254, 255, 256, 257, 511, 512, 1023, 1024, 4095, 4096, 65534, 65535, 65536};
static const size_t ITEMS_PRINTED_UP_TO = 2000;   // beyond: digest only (the specification compares the digest from 1101 on)

struct IWorld
{
  virtual ~IWorld() {}
  virtual Json step(const Json &act) = 0;
};

template <typename KEY, typename VALUE>
struct MapWorld : IWorld
{
  typedef FlatMap<KEY, VALUE> Map;
  Map *map, *s;
  Map other;          // "shadow" runs: an unrelated third map is used between any two steps; nothing of it is reported
  bool shadow;
  long long tick;
  explicit MapWorld(bool sh) : map(new Map()), s(new Map()), shadow(sh), tick(0) {}

  // calls on an unrelated instance (same keys, other values, other removals): they must not show in `map` / `s`
  void perturb(const Json &arg)
  {
    ++tick;
    long long k = arg.has("k") ? arg["k"].num() : arg.has("i") ? arg["i"].num() : tick % 3;
    other[KeyConv<KEY>::to(k)] = ValConv<VALUE>::to(k % 2 + 1 + tick % 2);
    (void)other.contains(KeyConv<KEY>::to((k + 1) % 3));
    if (other.size() > 0) (void)other.at_index(other.size() - 1);
    try { (void)other.at(KeyConv<KEY>::to((k + 2) % 3)); } catch (const std::out_of_range &) {}
    other.erase(KeyConv<KEY>::to((k + tick) % 3));
    if (tick % 7 == 0) other.clear();
  }
  ~MapWorld() override { delete map; delete s; }

  static Json pairOf(const typename Map::item_t &p)
  {
    Json j = Json::array();
    j.push(KeyConv<KEY>::from(p.first));
    j.push(ValConv<VALUE>::from(p.second));
    return j;
  }
  template <typename IT> static Json listOf(IT b, IT e)
  {
    Json a = Json::array();
    for (; b != e; ++b) a.push(pairOf(*b));
    return a;
  }
  static Json items(Map &mm) { return listOf(mm.begin(), mm.end()); }   // non-const object: mutable iterators

  static long long hnum(const Json &j) { long long v = j.type == Json::Int ? j.num() : -7; return ((v % HASH_MOD) + HASH_MOD) % HASH_MOD; }
  static void digest(Map &mm, Json &d)
  {
    long long h = 7;
    size_t n = mm.size();
    for (auto it = mm.begin(); it != mm.end(); ++it) {
      Json p = pairOf(*it);
      h = (h * 31 + hnum(p.a[0]) * 7 + hnum(p.a[1])) % HASH_MOD;
    }
    d.set("dig_hash", h);
    Json head = Json::array(), tail = Json::array(), probes = Json::array();
    for (size_t i = 0; i < n && i < 3; ++i) head.push(pairOf(mm.at_index(i)));
    for (size_t i = n > 3 ? n - 3 : 0; i < n; ++i) tail.push(pairOf(mm.at_index(i)));
    for (size_t j = 0; j < sizeof(PROBE_IDX) / sizeof(PROBE_IDX[0]); ++j)
      probes.push((size_t)PROBE_IDX[j] < n ? pairOf(mm.at_index((size_t)PROBE_IDX[j])) : Json::array());
    d.set("dig_head", head);
    d.set("dig_tail", tail);
    d.set("dig_probes", probes);
  }

  // whole-map operations need copyable values (FlatMap declares no move operations: a "move" is a copy)
  template <typename V2> typename std::enable_if<std::is_copy_constructible<V2>::value, bool>::type whole(const std::string &a)
  {
    if (a == "CopyTo") *s = *map;
    else if (a == "CopyFrom") *map = *s;
    else if (a == "CopyCtor") { Map *n = new Map(*map); delete s; s = n; }
    else if (a == "MoveCtor") { Map *n = new Map(std::move(*map)); delete s; s = n; map->clear(); }
    else if (a == "MoveAssign") { *s = std::move(*map); map->clear(); }
    else if (a == "SelfAssign") { Map &alias = *map; *map = alias; }
    else if (a == "Swap") std::swap(*map, *s);
    else return false;
    return true;
  }
  template <typename V2> typename std::enable_if<!std::is_copy_constructible<V2>::value, bool>::type whole(const std::string &) { return false; }

  static long long rv(long long k, long long d) { return ((k * 7 + d) % 997) + 1; }

  Json step(const Json &act) override
  {
    const std::string &a = act["a"].str();
    const Json &arg = act["arg"];
    Json o = Json::object();
    if (shadow) perturb(arg);
    if (a == "Put") {
      VALUE &r = ((*map)[KeyConv<KEY>::to(arg["k"].num())] = ValConv<VALUE>::to(arg["v"].num()));
      o.set("ret", ValConv<VALUE>::from(r));
    } else if (a == "Put2") {
      VALUE &r = ((*s)[KeyConv<KEY>::to(arg["k"].num())] = ValConv<VALUE>::to(arg["v"].num()));
      o.set("ret", ValConv<VALUE>::from(r));
    } else if (a == "GetOrInsert") {
      const KEY k = KeyConv<KEY>::to(arg["k"].num());   // an lvalue key
      const VALUE &v = (*map)[k];
      o.set("ret", ValConv<VALUE>::from(v));
    } else if (a == "At") {
      // const and non-const at() are evaluated independently: both must give the specified outcome
      Json r1, r2;
      try {
        const Map &cm = *map;
        r1 = ValConv<VALUE>::from(cm.at(KeyConv<KEY>::to(arg["k"].num())));
      } catch (const std::out_of_range &) {
        r1 = Json("throws");
      }
      try {
        r2 = ValConv<VALUE>::from(map->at(KeyConv<KEY>::to(arg["k"].num())));
      } catch (const std::out_of_range &) {
        r2 = Json("throws");
      }
      if (r1 == r2) o.set("ret", r1);
      else o.set("ret", "const at(): " + r1.dump() + " / non-const at(): " + r2.dump());
    } else if (a == "AtAssign") {
      try {
        map->at(KeyConv<KEY>::to(arg["k"].num())) = ValConv<VALUE>::to(arg["v"].num());
        o.set("ret", arg["v"]);
      } catch (const std::out_of_range &) {
        o.set("ret", "throws");
      }
    } else if (a == "ConstIndex") {
#ifdef ORDERED_MAP_PROBE_CONST_INDEX
      const Map &cm = *map;
      if (!cm.contains(KeyConv<KEY>::to(arg["k"].num()))) o.set("ret", "not-callable");   // absent key: not constrained, no call
      else o.set("ret", ValConv<VALUE>::from(cm[KeyConv<KEY>::to(arg["k"].num())]));
#else
      o.set("ret", "operator[] const is not instantiated in this build");
#endif
    } else if (a == "Contains") {
      o.set("ret", map->contains(KeyConv<KEY>::to(arg["k"].num())));
    } else if (a == "Erase") {
      map->erase(KeyConv<KEY>::to(arg["k"].num()));
      o.set("ret", "void");
    } else if (a == "Erase2") {
      s->erase(KeyConv<KEY>::to(arg["k"].num()));
      o.set("ret", "void");
    } else if (a == "EraseAt") {
      // the key argument is the key object stored in the map
      try {
        map->erase(map->at_index((size_t)arg["i"].num()).first);
        o.set("ret", "void");
      } catch (const std::out_of_range &) {
        o.set("ret", "throws");
      }
    } else if (a == "Clear") {
      map->clear();
      o.set("ret", "void");
    } else if (a == "Clear2") {
      s->clear();
      o.set("ret", "void");
    } else if (a == "AtIndex") {
      Json r1, r2;
      try {
        const Map &cm = *map;
        r1 = pairOf(cm.at_index((size_t)arg["i"].num()));
      } catch (const std::out_of_range &) {
        r1 = Json("throws");
      }
      try {
        r2 = pairOf(map->at_index((size_t)arg["i"].num()));
      } catch (const std::out_of_range &) {
        r2 = Json("throws");
      }
      if (r1 == r2) o.set("ret", r1);
      else o.set("ret", "const at_index(): " + r1.dump() + " / non-const at_index(): " + r2.dump());
    } else if (a == "AtIndexAssign") {
      try {
        map->at_index((size_t)arg["i"].num()).second = ValConv<VALUE>::to(arg["v"].num());
        o.set("ret", arg["v"]);
      } catch (const std::out_of_range &) {
        o.set("ret", "throws");
      }
    } else if (a == "IterAssign") {
      if ((size_t)arg["i"].num() >= map->size()) {
        o.set("ret", "not-callable");   // no such iterator
      } else {
        auto it = map->begin();
        it += (long)arg["i"].num();
        it->second = ValConv<VALUE>::to(arg["v"].num());
        o.set("ret", ValConv<VALUE>::from(it->second));
      }
    } else if (a == "IterRev") {
      // the three reverse families must show the same sequence
      const Map &cm = *map;
      Json r = listOf(map->rbegin(), map->rend());
      Json rc = listOf(cm.rbegin(), cm.rend());
      Json rcc = listOf(cm.crbegin(), cm.crend());
      if (r == rc && r == rcc) o.set("ret", r);
      else o.set("ret", "rbegin/rend: " + r.dump() + " / const rbegin/rend: " + rc.dump() + " / crbegin/crend: " + rcc.dump());
    } else if (a == "IterConst") {
      const Map &cm = *map;
      Json r = listOf(cm.cbegin(), cm.cend());
      Json rc = listOf(cm.begin(), cm.end());
      Json rm = listOf(map->begin(), map->end());
      if (r == rc && r == rm) o.set("ret", r);
      else o.set("ret", "cbegin/cend: " + r.dump() + " / const begin/end: " + rc.dump() + " / begin/end: " + rm.dump());
    } else if (a == "Reserve") {
      map->reserve((size_t)arg["n"].num());
      o.set("ret", "void");
    } else if (a == "InsertThrows") {
      const KEY k = KeyConv<KEY>::to(arg["k"].num());   // built before the failure is armed
      if (map->contains(k)) {
        o.set("ret", "not-callable");   // a present key is not inserted
      } else if (!Throwing<KEY, VALUE>::arm(arg["w"].str())) {
        o.set("ret", "this variant has no throwing key / value type");
      } else {
        try {
          const VALUE &v = (*map)[k];
          o.set("ret", ValConv<VALUE>::from(v));
        } catch (const Boom &) {
          o.set("ret", "throws");
        }
        Throwing<KEY, VALUE>::disarm();
      }
    } else if (a == "PutRange") {
      long long lo = arg["lo"].num(), n = arg["n"].num(), d = arg["d"].num();
      for (long long k = lo; k < lo + n; ++k) (*map)[KeyConv<KEY>::to(k)] = ValConv<VALUE>::to(rv(k, d));
      o.set("ret", "void");
    } else if (a == "EraseEvery") {
      long long lo = arg["lo"].num(), n = arg["n"].num(), st = arg["st"].num(), r = arg["r"].num();
      if (arg["how"].str() == "key") {
        for (long long k = lo; k < lo + n; ++k)
          if (k % st == r) map->erase(KeyConv<KEY>::to(k));
      } else {
        // one pass over the entries; the key passed to erase() is the stored key object
        size_t i = 0;
        while (i < map->size()) {
          Json kj = KeyConv<KEY>::from(map->at_index(i).first);
          long long k = kj.type == Json::Int ? kj.num() : -1;
          if (k >= lo && k < lo + n && k % st == r) map->erase(map->at_index(i).first);
          else ++i;
        }
      }
      o.set("ret", "void");
    } else if (whole<VALUE>(a)) {
      o.set("ret", "void");
    } else {
      o.set("ret", "unknown or unsupported action " + a);
    }
    size_t n = map->size();
    o.set("size", (long long)n);
    o.set("empty", map->empty() != 0);
    if (n <= ITEMS_PRINTED_UP_TO) o.set("items", items(*map));
    if (n > 1000) digest(*map, o);
    o.set("items2", s->size() <= ITEMS_PRINTED_UP_TO ? items(*s) : Json("too large"));
    return o;
  }
};

struct World
{
  IWorld *w;
  World(const Json &hist)
  {
    const std::string v = hist["variant"].str();
    g_keymap = hist.has("keymap") ? (int)hist["keymap"].num() : 0;
    const bool sh = hist.has("shadow") && hist["shadow"].num() != 0;
    if (v == "ss") w = new MapWorld<std::string, std::string>(sh);
    else if (v == "si") w = new MapWorld<std::string, int>(sh);
    else if (v == "is") w = new MapWorld<int, std::string>(sh);
    else if (v == "Li") w = new MapWorld<int64_t, int>(sh);
    else if (v == "iu") w = new MapWorld<int, std::unique_ptr<int>>(sh);
    else if (v == "tt") w = new MapWorld<TKey, TVal>(sh);
    else w = new MapWorld<int, int>(sh);
  }
  ~World() { delete w; }
  Json step(const Json &act) { return w->step(act); }
};

int main(int argc, char **argv)
{
  return vdrv::run<World>(argc, argv);
}
