// Conformance driver for spec/utility/{Strings,PseudoUrl,FileNames,ArgList,SiPrint,
// BigStrings,ByteSweep,FileObjs,UrlObjs}*.tla (property C18).  Interprets the actions
// of the specifications on the real rkcommon functions / objects and reports the
// observables the specifications talk about.  It decides nothing.
//
// Functional actions (one-step histories):
//   SplitChar{s,d} SplitSet{s,d} Tokenize{s,d} Lcp{x,y} BeginsWith{x,y} TokenizeReuse{s1,s2,d}
//   SplitCharRep / SplitSetRep / TokenizeRep {u,n,tail,d}     the string u^n tail (many tokens)
//   UrlParse{u,q}  UrlParseRep{t,f,names,n,q}                 n parameters names[(i-1)%p] = v<i>
//   FnSplit{s} FnNameExt{s} FnDropExt{s} FnSetExt{s,x} FnAddExt{s,x} FnPlus{s,o[,dflt]} FnRecompose{s}
//   PrettyDouble{neg,m,e}   the double nearest to (-1)^neg * m * 10^e
//   PrettyNumber{limbs}     the count limbs[0] * 10^18 + limbs[1] * 10^9 + limbs[2]
// Object histories:
//   ArgumentList (variant "list") / raw argc-argv + removeArgs (variant "acav"):
//     Construct{v} ConstructRep{pat,n,tail} Get{i} Remove{w,h} ParseAndRemove{cnt} Snapshot CheckSnapshot;
//     record mode: RemoveMod{w,h} GetMod{i}
//   FileName objects:  FoNew{d,s} FoAssign{d,s} FoPlus{d,l,r,ov} FoSetExt{d,s,x} FoDropExt{d,s}
//   PseudoURL objects: PuNew{d,u} PuCopy{d,s} PuAsk{d,n} PuDrop{d}
//
// String exchange formats (input accepted in every form):
//   plain JSON strings;
//   "chars":true in the history line: arrays of one-character strings (what the TLA+ modules work on);
//   "rle":true in the arguments: blocks [[unit, n], ...] (unit repeated n times), results run-length encoded [[c, n], ...];
//   "byte":b in the arguments: the placeholder character X stands for the byte value b (X -> b on the way in,
//   b -> X on the way out; the specification's cases are indifferent to which non-structural character X is).
#include <cstdlib>
#include <cstring>
#include <map>
#include <sstream>
#include <string>
#include <vector>
#include "driver.h"
#include "rkcommon/common.h"
#include "rkcommon/os/FileName.h"
#include "rkcommon/utility/ArgumentList.h"
#include "rkcommon/utility/PseudoURL.h"
#include "rkcommon/utility/StringManip.h"

using vj::Json;

static bool g_chars = false;
static bool g_rle = false;
static int g_byte = -1;

static Json S(const std::string &s0)
{
  std::string s = s0;
  if (g_byte >= 0)
    for (auto &c : s)
      if ((unsigned char)c == (unsigned char)g_byte) c = 'X';
  if (g_rle) {
    Json a = Json::array();
    size_t i = 0;
    while (i < s.size()) {
      size_t j = i;
      while (j < s.size() && s[j] == s[i]) ++j;
      Json b = Json::array();
      b.push(Json(std::string(1, s[i])));
      b.push(Json((long long)(j - i)));
      a.push(b);
      i = j;
    }
    return a;
  }
  if (!g_chars) return Json(s);
  Json a = Json::array();
  for (char c : s) a.push(Json(std::string(1, c)));
  return a;
}

static std::string str(const Json &j)
{
  std::string r;
  if (j.type == Json::Arr) {
    for (size_t i = 0; i < j.size(); ++i) {
      if (j[i].type == Json::Arr) {  // block [unit, n]
        const std::string u = j[i][0].str();
        long long n = j[i][1].num();
        r.reserve(r.size() + u.size() * (size_t)n);
        for (long long k = 0; k < n; ++k) r += u;
      } else
        r += j[i].str();
    }
  } else
    r = j.str();
  if (g_byte >= 0)
    for (auto &c : r)
      if (c == 'X') c = (char)g_byte;
  return r;
}

static void tokensObs(const std::vector<std::string> &toks, Json &o, const char *field = "tokens")
{
  // the property speaks about the non-empty tokens; the raw count is reported for information
  Json t = Json::array();
  std::string joined;
  for (auto &x : toks) {
    joined += x;
    if (!x.empty()) t.push(S(x));
  }
  o.set(field, t);
  if (!strcmp(field, "tokens")) {
    o.set("tokens_joined", S(joined));
    o.set("nraw", (long long)toks.size());
  }
}

// non-empty tokens with equal neighbours merged: [{tok, count}, ...]
static void countedObs(const std::vector<std::string> &toks, Json &o)
{
  Json t = Json::array();
  size_t i = 0, n = 0;
  std::vector<const std::string *> ne;
  for (auto &x : toks)
    if (!x.empty()) ne.push_back(&x);
  while (i < ne.size()) {
    size_t j = i;
    while (j < ne.size() && *ne[j] == *ne[i]) ++j;
    Json e = Json::object();
    e.set("tok", *ne[i]);
    e.set("count", (long long)(j - i));
    t.push(e);
    n += j - i;
    i = j;
  }
  o.set("tokens_counted", t);
  o.set("ntokens", (long long)n);
}

// what was printed, read back: [-]ddd[.ddd]<suffix>
static void printedObs(const std::string &p, Json &o)
{
  size_t i = 0;
  bool neg = false;
  if (i < p.size() && p[i] == '-') { neg = true; ++i; }
  long long mant = 0;
  int nd = 0, digits = 0;
  bool sat = false;
  auto add = [&](char c) {
    ++nd;
    if (mant > 214748363) { sat = true; return; }
    mant = mant * 10 + (c - '0');
  };
  while (i < p.size() && p[i] >= '0' && p[i] <= '9') add(p[i++]);
  if (i < p.size() && p[i] == '.') {
    ++i;
    while (i < p.size() && p[i] >= '0' && p[i] <= '9') { add(p[i++]); ++digits; }
  }
  if (sat) mant = 2147483647;
  if (nd == 0) digits = -1;
  o.set("digits", digits);
  o.set("mant", mant);
  o.set("suf", p.substr(i));
  o.set("neg", neg);
  o.set("raw", p);
}

struct CountParser : rkcommon::utility::ArgumentsParser
{
  std::map<std::string, int> cnt;
  int calls = 0;
  int tryConsume(rkcommon::utility::ArgumentList &l, int id) override
  {
    ++calls;
    auto it = cnt.find(l[id]);
    int n = it == cnt.end() ? 0 : it->second;
    return std::min(n, l.size() - id);
  }
};

static Json urlAnswer(rkcommon::utility::PseudoURL &u, const std::string &n)
{
  Json r = Json::object();
  r.set("n", S(n));
  r.set("has", u.hasParam(n));
  try {
    std::string v = u.getValue(n);
    r.set("throws", false);
    r.set("val", S(v));
  } catch (const std::exception &) {
    r.set("throws", true);
    r.set("val", S(""));
  }
  return r;
}

static Json fileObs(const rkcommon::FileName &f)
{
  Json o = Json::object();
  o.set("str", f.str());
  o.set("path", f.path());
  o.set("base", f.base());
  o.set("name", f.name());
  o.set("ext", f.ext());
  return o;
}

struct World
{
  // ---- ArgumentList / argc-argv state
  bool acav = false;
  std::vector<std::string> storage;
  std::vector<const char *> av;
  const char **avp = nullptr;
  int ac = 0;
  rkcommon::utility::ArgumentList *list = nullptr;
  rkcommon::utility::ArgumentList *snapList = nullptr;  // a copy taken before a modification
  std::vector<std::string> snapAv;
  // ---- FileName / PseudoURL objects
  rkcommon::FileName fo[2];
  rkcommon::utility::PseudoURL *po[2] = {nullptr, nullptr};
  static const char *QUERY[4];

  World(const Json &hist)
  {
    g_chars = hist.has("chars") && hist["chars"].boolean();
    acav = hist.has("variant") && hist["variant"].str() == "acav";
  }
  ~World()
  {
    delete list;
    delete snapList;
    delete po[0];
    delete po[1];
  }

  Json itemsOf(rkcommon::utility::ArgumentList *l)
  {
    Json items = Json::array();
    if (l)
      for (int i = 0; i < l->size(); ++i) items.push(Json((*l)[i]));
    return items;
  }

  void proj(Json &o)
  {
    Json items = Json::array();
    if (acav) {
      o.set("size", ac > 0 ? ac - 1 : 0);
      o.set("empty", ac <= 1);
      for (int i = 1; i < ac; ++i) items.push(Json(std::string(avp[i])));
      if (ac > 0 && std::string(avp[0]) != "prog") items.push(Json("argv[0] changed"));
    } else if (list) {
      o.set("size", list->size());
      o.set("empty", list->empty());
      items = itemsOf(list);
    } else {
      o.set("size", 0);
      o.set("empty", true);
    }
    o.set("items", items);
  }

  void construct(const std::vector<std::string> &v)
  {
    storage.clear();
    storage.push_back("prog");
    for (auto &s : v) storage.push_back(s);
    av.clear();
    for (auto &s : storage) av.push_back(s.c_str());
    av.push_back(nullptr);
    ac = (int)storage.size();
    avp = av.data();
    delete list;
    list = nullptr;
    if (!acav) list = new rkcommon::utility::ArgumentList(ac, avp);
  }

  // remove with the default howMany (= 1) on a copy: must give what remove(where, 1) gives
  void removeDefaultOnCopy(int w, Json &o)
  {
    Json items = Json::array();
    if (acav) {
      std::vector<const char *> c(avp, avp + ac + 1);
      const char **cp = c.data();
      int cc = ac;
      rkcommon::removeArgs(cc, cp, w + 1, 1);
      for (int i = 1; i < cc; ++i) items.push(Json(std::string(cp[i])));
    } else {
      rkcommon::utility::ArgumentList c(*list);
      c.remove(w);
      items = itemsOf(&c);
    }
    o.set("items_default", items);
  }

  void removeAt(int w, int h, Json &o)
  {
    if (h == 1) removeDefaultOnCopy(w, o);
    if (acav) rkcommon::removeArgs(ac, avp, w + 1, h);
    else list->remove(w, h);
  }

  Json adt(const std::string &a, const Json &arg)
  {
    Json o = Json::object();
    if (a == "Construct") {
      std::vector<std::string> v;
      for (size_t i = 0; i < arg["v"].size(); ++i) v.push_back(arg["v"][i].str());
      construct(v);
    } else if (a == "ConstructRep") {
      std::vector<std::string> v;
      const Json &pat = arg["pat"];
      long long n = arg["n"].num();
      for (long long k = 0; k < n; ++k)
        for (size_t i = 0; i < pat.size(); ++i) v.push_back(pat[i].str());
      for (size_t i = 0; i < arg["tail"].size(); ++i) v.push_back(arg["tail"][i].str());
      construct(v);
    } else if (a == "Snapshot") {
      delete snapList;
      snapList = nullptr;
      snapAv.clear();
      if (acav) for (int i = 1; i < ac; ++i) snapAv.push_back(avp[i]);  // the strings the pointers designate
      else snapList = new rkcommon::utility::ArgumentList(*list);
    } else if (a == "CheckSnapshot") {
      Json s = Json::array();
      if (acav) for (auto &x : snapAv) s.push(Json(x));
      else s = itemsOf(snapList);
      o.set("snapshot", s);
    } else if (a == "Get") {
      int i = (int)arg["i"].num();
      if (acav) o.set("ret", std::string(avp[i + 1]));
      else o.set("ret", (*list)[i]);
    } else if (a == "Remove") {
      removeAt((int)arg["w"].num(), (int)arg["h"].num(), o);
    } else if (a == "RemoveMod" || a == "GetMod") {
      // record mode: the random arguments are reduced into the range the real object reports;
      // the arguments actually used are part of the log
      int size = acav ? (ac > 0 ? ac - 1 : 0) : list->size();
      if (a == "RemoveMod") {
        int w = (int)(arg["w"].num() % (size + 1));
        int h = (int)(arg["h"].num() % (size - w + 1));
        removeAt(w, h, o);
        o.set("w", w);
        o.set("h", h);
      } else if (size == 0) {
        o.set("skip", true);
      } else {
        int i = (int)(arg["i"].num() % size);
        o.set("skip", false);
        o.set("i", i);
        if (acav) o.set("ret", std::string(avp[i + 1]));
        else o.set("ret", (*list)[i]);
      }
    } else if (a == "ParseAndRemove") {
      CountParser p;
      for (auto &kv : arg["cnt"].o) p.cnt[kv.first] = (int)kv.second.num();
      if (acav) {
        // the canonical argc/argv loop on top of removeArgs
        for (int id = 1; id < ac;) {
          auto it = p.cnt.find(avp[id]);
          int n = it == p.cnt.end() ? 0 : it->second;
          n = std::min(n, ac - id);
          ++p.calls;
          if (n == 0) ++id;
          else rkcommon::removeArgs(ac, avp, id, n);
        }
      } else {
        p.parseAndRemove(*list);
      }
      o.set("calls", p.calls);
    }
    proj(o);
    return o;
  }

  // ---- FileName objects: every action ends with both objects decomposed again
  Json fileObjects(const std::string &a, const Json &arg)
  {
    using rkcommon::FileName;
    int d = (int)arg["d"].num() - 1;
    if (a == "FoNew") {
      fo[d] = FileName(arg["s"].str());
    } else if (a == "FoAssign") {
      FileName &src = fo[(int)arg["s"].num() - 1];
      fo[d] = src;  // d == s: self-assignment
    } else if (a == "FoPlus") {
      FileName &l = fo[(int)arg["l"].num() - 1];
      FileName &r = fo[(int)arg["r"].num() - 1];
      if (arg["ov"].str() == "fn") fo[d] = l + r;  // operands may be the destination / each other
      else fo[d] = l + r.str();
    } else if (a == "FoSetExt") {
      fo[d] = fo[(int)arg["s"].num() - 1].setExt(arg["x"].str());
    } else if (a == "FoDropExt") {
      fo[d] = fo[(int)arg["s"].num() - 1].dropExt();
    }
    Json o = Json::object();
    o.set("f1", fileObs(fo[0]));
    o.set("f2", fileObs(fo[1]));
    return o;
  }

  Json urlObs(rkcommon::utility::PseudoURL *u)
  {
    Json o = Json::object();
    o.set("set", u != nullptr);
    if (!u) return o;
    o.set("type", u->getType());
    o.set("fileName", u->getFileName());
    Json ps = Json::array();
    for (int i = 0; i < 4; ++i) ps.push(urlAnswer(*u, QUERY[i]));
    o.set("params", ps);
    return o;
  }

  Json urlObjects(const std::string &a, const Json &arg)
  {
    using rkcommon::utility::PseudoURL;
    int d = (int)arg["d"].num() - 1;
    Json o = Json::object();
    if (a == "PuNew") {
      PseudoURL *n = new PseudoURL(arg["u"].str());  // the new object exists beside the old ones for a moment
      delete po[d];
      po[d] = n;
    } else if (a == "PuCopy") {
      int s = (int)arg["s"].num() - 1;
      if (po[d]) *po[d] = *po[s];  // copy assignment; d == s: onto itself
      else po[d] = new PseudoURL(*po[s]);
    } else if (a == "PuAsk") {
      o.set("ret", urlAnswer(*po[d], arg["n"].str()));
    } else if (a == "PuDrop") {
      delete po[d];
      po[d] = nullptr;
    }
    o.set("u1", urlObs(po[0]));
    o.set("u2", urlObs(po[1]));
    return o;
  }

  Json step(const Json &act)
  {
    using namespace rkcommon::utility;
    const std::string &a = act["a"].str();
    const Json &arg = act["arg"];
    if (a == "Construct" || a == "ConstructRep" || a == "Get" || a == "Remove" || a == "ParseAndRemove" || a == "RemoveMod" ||
        a == "GetMod" || a == "Snapshot" || a == "CheckSnapshot")
      return adt(a, arg);
    if (a.compare(0, 2, "Fo") == 0) return fileObjects(a, arg);
    if (a.compare(0, 2, "Pu") == 0) return urlObjects(a, arg);
    g_rle = arg.has("rle") && arg["rle"].boolean();
    g_byte = arg.has("byte") ? (int)arg["byte"].num() : -1;
    Json o = Json::object();
    o.set("ran", true);
    if (a == "SplitChar") {
      std::string d = str(arg["d"]);
      tokensObs(split(str(arg["s"]), d[0]), o);
    } else if (a == "SplitSet") {
      // keepDelim defaults to false: both spellings are reported
      tokensObs(split(str(arg["s"]), str(arg["d"])), o);
      tokensObs(split(str(arg["s"]), str(arg["d"]), false), o, "tokens_explicit");
    } else if (a == "Tokenize") {
      std::vector<std::string> toks;
      std::string d = str(arg["d"]);
      tokenize(str(arg["s"]), d[0], toks);
      tokensObs(toks, o);
    } else if (a == "TokenizeReuse") {
      // the output vector is used for two calls in a row
      std::vector<std::string> toks;
      std::string d = str(arg["d"]);
      tokenize(str(arg["s1"]), d[0], toks);
      tokensObs(toks, o, "first");
      tokenize(str(arg["s2"]), d[0], toks);
      tokensObs(toks, o, "after");
    } else if (a == "SplitCharRep" || a == "SplitSetRep" || a == "TokenizeRep") {
      std::string u = arg["u"].str(), s, d = arg["d"].str();
      long long n = arg["n"].num();
      s.reserve(u.size() * (size_t)n + 8);
      for (long long k = 0; k < n; ++k) s += u;
      s += arg["tail"].str();
      std::vector<std::string> toks;
      if (a == "SplitCharRep") toks = split(s, d[0]);
      else if (a == "SplitSetRep") toks = split(s, d);
      else tokenize(s, d[0], toks);
      countedObs(toks, o);
    } else if (a == "Lcp") {
      o.set("lcp", S(longestBeginningMatch(str(arg["x"]), str(arg["y"]))));
    } else if (a == "BeginsWith") {
      o.set("ret", beginsWith(str(arg["x"]), str(arg["y"])));
    } else if (a == "UrlParse" || a == "UrlParseRep") {
      std::string text;
      if (a == "UrlParse") {
        text = str(arg["u"]);
      } else {
        // <type>://<file>[:name=value]* with n parameters: names[(i-1) % p] = "v<i>", i = 1..n
        std::ostringstream os;
        os << arg["t"].str() << "://" << arg["f"].str();
        long long n = arg["n"].num();
        size_t p = arg["names"].size();
        for (long long i = 1; i <= n; ++i) os << ':' << arg["names"][(size_t)((i - 1) % (long long)p)].str() << "=v" << i;
        text = os.str();
      }
      PseudoURL u(text);
      o.set("type", S(u.getType()));
      o.set("fileName", S(u.getFileName()));
      Json ps = Json::array();
      for (size_t i = 0; i < arg["q"].size(); ++i) ps.push(urlAnswer(u, str(arg["q"][i])));
      o.set("params", ps);
    } else if (a.compare(0, 2, "Fn") == 0) {
      std::string s = str(arg["s"]);
      bool dflt = arg.has("dflt") && arg["dflt"].boolean();
      rkcommon::FileName f = dflt ? rkcommon::FileName() : rkcommon::FileName(s);  // std::string constructor
      rkcommon::FileName fc(s.c_str());                                            // const char* constructor
      o.set("str", S(f.str()));
      if (a == "FnSplit") {
        o.set("str_c", S(fc.str()));
        o.set("conv", S((std::string)f));
        o.set("cstr", S(std::string(f.c_str())));
        std::ostringstream os;
        os << f;
        o.set("streamed", S(os.str()));
        o.set("eq_self", f == rkcommon::FileName(s));
        o.set("ne_self", f != rkcommon::FileName(s));
        o.set("path", S(f.path()));
        o.set("base", S(f.base()));
      } else if (a == "FnNameExt") {
        o.set("name", S(f.name()));
        o.set("ext", S(f.ext()));
      } else if (a == "FnDropExt") {
        o.set("res", S(f.dropExt().str()));
      } else if (a == "FnSetExt") {
        std::string x = str(arg["x"]);
        o.set("res", S(f.setExt(x).str()));
        if (x.empty()) o.set("res_default", S(f.setExt().str()));
      } else if (a == "FnAddExt") {
        std::string x = str(arg["x"]);
        o.set("res", S(f.addExt(x).str()));
        if (x.empty()) o.set("res_default", S(f.addExt().str()));
      } else if (a == "FnPlus") {
        // both overloads; a const char* right operand is ambiguous between them and does not compile
        std::string os = str(arg["o"]);
        rkcommon::FileName g(os);
        rkcommon::FileName r = f + g;
        rkcommon::FileName r2 = f + os;
        o.set("ostr", S(g.str()));
        o.set("res_fn", S(r.str()));
        o.set("res_str", S(r2.str()));
        o.set("path", S(r.path()));
        o.set("base", S(r.base()));
        o.set("eq", f == g);
        o.set("ne", f != g);
      } else if (a == "FnRecompose") {
        rkcommon::FileName d(f.path());
        o.set("dstr", S(d.str()));
        o.set("res_fn", S((d + rkcommon::FileName(f.base())).str()));
        o.set("res_str", S((d + f.base()).str()));
      } else {
        o.set("ret", "unknown action " + a);
      }
    } else if (a == "PrettyDouble") {
      // the correctly rounded double of (-1)^neg * m * 10^e (neg with m = 0: negative zero)
      char buf[64];
      bool neg = arg.has("neg") && arg["neg"].boolean();
      snprintf(buf, sizeof buf, "%s%llde%lld", neg ? "-" : "", (long long)arg["m"].num(), (long long)arg["e"].num());
      double v = strtod(buf, nullptr);
      printedObs(rkcommon::prettyDouble(v), o);
    } else if (a == "PrettyNumber") {
      // the count a * 10^18 + b * 10^9 + c given as limbs [a, b, c] (exact in 64 bits)
      const Json &L = arg["limbs"];
      unsigned long long v = (unsigned long long)L[0].num();
      v = v * 1000000000ULL + (unsigned long long)L[1].num();
      v = v * 1000000000ULL + (unsigned long long)L[2].num();
      o.set("value", std::to_string(v));
      printedObs(rkcommon::prettyNumber((size_t)v), o);
    } else {
      o.set("ret", "unknown action " + a);
    }
    g_rle = false;
    g_byte = -1;
    return o;
  }
};

const char *World::QUERY[4] = {"q", "n", "m", "q"};

int main(int argc, char **argv)
{
  return vdrv::run<World>(argc, argv);
}
