// Conformance driver for spec/utility/{Strings,PseudoUrl,FileNames,ArgList,SiPrint}.tla
// (property C18).  Interprets the actions of the specifications on the real
// rkcommon functions / objects and reports the observables the specifications
// talk about.  It decides nothing.
//
// Functional actions (one-step histories):
//   SplitChar{s,d} SplitSet{s,d} Tokenize{s,d} Lcp{x,y} BeginsWith{x,y}
//   UrlParse{u,q}  FnSplit{s} FnNameExt{s} FnDropExt{s} FnSetExt{s,x} FnAddExt{s,x} FnPlus{s,o[,dflt]} FnRecompose{s}
//   PrettyDouble{neg,m,e}   the double nearest to (-1)^neg * m * 10^e
//   PrettyNumber{limbs}     the count limbs[0] * 10^18 + limbs[1] * 10^9 + limbs[2]
// ADT actions (ArgumentList, variant "list"; raw argc/argv + removeArgs, variant "acav"):
//   Construct{v} Get{i} Remove{w,h} ParseAndRemove{cnt}; record mode: RemoveMod{w,h} GetMod{i}
//
// Strings are exchanged as JSON strings; with "chars":true in the history line
// every specification-level string is written as an array of one-character
// strings (what the TLA+ modules work on) and accepted in either form.
#include <cstdlib>
#include <cstring>
#include <map>
#include <string>
#include <vector>
#include "driver.h"
#include "rkcommon/common.h"
#include "rkcommon/os/FileName.h"
#include "rkcommon/utility/ArgumentList.h"
#include "rkcommon/utility/PseudoURL.h"
#include "rkcommon/utility/StringManip.h"

using vj::Json;

static bool g_chars = false;

static Json S(const std::string &s)
{
  if (!g_chars) return Json(s);
  Json a = Json::array();
  for (char c : s) a.push(Json(std::string(1, c)));
  return a;
}

static std::string str(const Json &j)
{
  if (j.type == Json::Arr) {
    std::string r;
    for (size_t i = 0; i < j.size(); ++i) r += j[i].str();
    return r;
  }
  return j.str();
}

static Json tokensObs(const std::vector<std::string> &toks, Json &o)
{
  // the property speaks about the non-empty tokens; the raw count is reported for information
  Json t = Json::array();
  std::string joined;
  for (auto &x : toks) {
    joined += x;
    if (!x.empty()) t.push(S(x));
  }
  o.set("tokens", t);
  o.set("tokens_joined", S(joined));
  o.set("nraw", (long long)toks.size());
  return o;
}

// what was printed, read back: [-]ddd[.ddd]<suffix>
static void printedObs(const std::string &p, Json &o)
{
  size_t i = 0;
  bool neg = false;
  if (i < p.size() && p[i] == '-') { neg = true; ++i; }
  long long mant = 0;
  int nd = 0, digits = 0;
  bool sat = false;
  auto add = [&](char c) {
    ++nd;
    if (mant > 214748363) { sat = true; return; }
    mant = mant * 10 + (c - '0');
  };
  while (i < p.size() && p[i] >= '0' && p[i] <= '9') add(p[i++]);
  if (i < p.size() && p[i] == '.') {
    ++i;
    while (i < p.size() && p[i] >= '0' && p[i] <= '9') { add(p[i++]); ++digits; }
  }
  if (sat) mant = 2147483647;
  if (nd == 0) digits = -1;
  o.set("digits", digits);
  o.set("mant", mant);
  o.set("suf", p.substr(i));
  o.set("neg", neg);
  o.set("raw", p);
}

struct CountParser : rkcommon::utility::ArgumentsParser
{
  std::map<std::string, int> cnt;
  int calls = 0;
  int tryConsume(rkcommon::utility::ArgumentList &l, int id) override
  {
    ++calls;
    auto it = cnt.find(l[id]);
    int n = it == cnt.end() ? 0 : it->second;
    return std::min(n, l.size() - id);
  }
};

struct World
{
  // ADT state
  bool acav = false;
  std::vector<std::string> storage;
  std::vector<const char *> av;
  const char **avp = nullptr;
  int ac = 0;
  rkcommon::utility::ArgumentList *list = nullptr;

  World(const Json &hist)
  {
    g_chars = hist.has("chars") && hist["chars"].boolean();
    acav = hist.has("variant") && hist["variant"].str() == "acav";
  }
  ~World() { delete list; }

  void proj(Json &o)
  {
    Json items = Json::array();
    if (acav) {
      o.set("size", ac > 0 ? ac - 1 : 0);
      o.set("empty", ac <= 1);
      for (int i = 1; i < ac; ++i) items.push(Json(std::string(avp[i])));
      if (ac > 0 && std::string(avp[0]) != "prog") items.push(Json("argv[0] changed"));
    } else if (list) {
      o.set("size", list->size());
      o.set("empty", list->empty());
      for (int i = 0; i < list->size(); ++i) items.push(Json((*list)[i]));
    } else {
      o.set("size", 0);
      o.set("empty", true);
    }
    o.set("items", items);
  }

  Json adt(const std::string &a, const Json &arg)
  {
    Json o = Json::object();
    if (a == "Construct") {
      storage.clear();
      storage.push_back("prog");
      for (size_t i = 0; i < arg["v"].size(); ++i) storage.push_back(arg["v"][i].str());
      av.clear();
      for (auto &s : storage) av.push_back(s.c_str());
      av.push_back(nullptr);
      ac = (int)storage.size();
      avp = av.data();
      delete list;
      list = nullptr;
      if (!acav) list = new rkcommon::utility::ArgumentList(ac, avp);
    } else if (a == "Get") {
      int i = (int)arg["i"].num();
      if (acav) o.set("ret", std::string(avp[i + 1]));
      else o.set("ret", (*list)[i]);
    } else if (a == "Remove") {
      int w = (int)arg["w"].num(), h = (int)arg["h"].num();
      if (acav) rkcommon::removeArgs(ac, avp, w + 1, h);
      else list->remove(w, h);
    } else if (a == "RemoveMod" || a == "GetMod") {
      // record mode: the random arguments are reduced into the range the real object reports;
      // the arguments actually used are part of the log
      int size = acav ? (ac > 0 ? ac - 1 : 0) : list->size();
      if (a == "RemoveMod") {
        int w = (int)(arg["w"].num() % (size + 1));
        int h = (int)(arg["h"].num() % (size - w + 1));
        if (acav) rkcommon::removeArgs(ac, avp, w + 1, h);
        else list->remove(w, h);
        o.set("w", w);
        o.set("h", h);
      } else if (size == 0) {
        o.set("skip", true);
      } else {
        int i = (int)(arg["i"].num() % size);
        o.set("skip", false);
        o.set("i", i);
        if (acav) o.set("ret", std::string(avp[i + 1]));
        else o.set("ret", (*list)[i]);
      }
    } else if (a == "ParseAndRemove") {
      CountParser p;
      for (auto &kv : arg["cnt"].o) p.cnt[kv.first] = (int)kv.second.num();
      if (acav) {
        // the canonical argc/argv loop on top of removeArgs
        for (int id = 1; id < ac;) {
          auto it = p.cnt.find(avp[id]);
          int n = it == p.cnt.end() ? 0 : it->second;
          n = std::min(n, ac - id);
          ++p.calls;
          if (n == 0) ++id;
          else rkcommon::removeArgs(ac, avp, id, n);
        }
      } else {
        p.parseAndRemove(*list);
      }
      o.set("calls", p.calls);
    }
    proj(o);
    return o;
  }

  Json step(const Json &act)
  {
    using namespace rkcommon::utility;
    const std::string &a = act["a"].str();
    const Json &arg = act["arg"];
    if (a == "Construct" || a == "Get" || a == "Remove" || a == "ParseAndRemove" || a == "RemoveMod" || a == "GetMod")
      return adt(a, arg);
    Json o = Json::object();
    o.set("ran", true);
    if (a == "SplitChar") {
      std::string d = str(arg["d"]);
      tokensObs(split(str(arg["s"]), d[0]), o);
    } else if (a == "SplitSet") {
      tokensObs(split(str(arg["s"]), str(arg["d"])), o);
    } else if (a == "Tokenize") {
      std::vector<std::string> toks;
      std::string d = str(arg["d"]);
      tokenize(str(arg["s"]), d[0], toks);
      tokensObs(toks, o);
    } else if (a == "Lcp") {
      o.set("lcp", S(longestBeginningMatch(str(arg["x"]), str(arg["y"]))));
    } else if (a == "BeginsWith") {
      o.set("ret", beginsWith(str(arg["x"]), str(arg["y"])));
    } else if (a == "UrlParse") {
      PseudoURL u(str(arg["u"]));
      o.set("type", S(u.getType()));
      o.set("fileName", S(u.getFileName()));
      Json ps = Json::array();
      for (size_t i = 0; i < arg["q"].size(); ++i) {
        std::string n = str(arg["q"][i]);
        Json r = Json::object();
        r.set("n", S(n));
        r.set("has", u.hasParam(n));
        try {
          std::string v = u.getValue(n);
          r.set("throws", false);
          r.set("val", S(v));
        } catch (const std::exception &) {
          r.set("throws", true);
          r.set("val", S(""));
        }
        ps.push(r);
      }
      o.set("params", ps);
    } else if (a.compare(0, 2, "Fn") == 0) {
      std::string s = str(arg["s"]);
      bool dflt = arg.has("dflt") && arg["dflt"].boolean();
      rkcommon::FileName f = dflt ? rkcommon::FileName() : rkcommon::FileName(s);  // std::string constructor
      rkcommon::FileName fc(s.c_str());                                            // const char* constructor
      o.set("str", S(f.str()));
      if (a == "FnSplit") {
        o.set("str_c", S(fc.str()));
        o.set("conv", S((std::string)f));
        o.set("cstr", S(std::string(f.c_str())));
        o.set("path", S(f.path()));
        o.set("base", S(f.base()));
      } else if (a == "FnNameExt") {
        o.set("name", S(f.name()));
        o.set("ext", S(f.ext()));
      } else if (a == "FnDropExt") {
        o.set("res", S(f.dropExt().str()));
      } else if (a == "FnSetExt") {
        std::string x = str(arg["x"]);
        o.set("res", S(f.setExt(x).str()));
        if (x.empty()) o.set("res_default", S(f.setExt().str()));
      } else if (a == "FnAddExt") {
        std::string x = str(arg["x"]);
        o.set("res", S(f.addExt(x).str()));
        if (x.empty()) o.set("res_default", S(f.addExt().str()));
      } else if (a == "FnPlus") {
        // both overloads; a const char* right operand is ambiguous between them and does not compile
        std::string os = str(arg["o"]);
        rkcommon::FileName g(os);
        rkcommon::FileName r = f + g;
        rkcommon::FileName r2 = f + os;
        o.set("ostr", S(g.str()));
        o.set("res_fn", S(r.str()));
        o.set("res_str", S(r2.str()));
        o.set("path", S(r.path()));
        o.set("base", S(r.base()));
      } else if (a == "FnRecompose") {
        rkcommon::FileName d(f.path());
        o.set("dstr", S(d.str()));
        o.set("res_fn", S((d + rkcommon::FileName(f.base())).str()));
        o.set("res_str", S((d + f.base()).str()));
      } else {
        o.set("ret", "unknown action " + a);
      }
    } else if (a == "PrettyDouble") {
      // the correctly rounded double of (-1)^neg * m * 10^e (neg with m = 0: negative zero)
      char buf[64];
      bool neg = arg.has("neg") && arg["neg"].boolean();
      snprintf(buf, sizeof buf, "%s%llde%lld", neg ? "-" : "", (long long)arg["m"].num(), (long long)arg["e"].num());
      double v = strtod(buf, nullptr);
      printedObs(rkcommon::prettyDouble(v), o);
    } else if (a == "PrettyNumber") {
      // the count a * 10^18 + b * 10^9 + c given as limbs [a, b, c] (exact in 64 bits)
      const Json &L = arg["limbs"];
      unsigned long long v = (unsigned long long)L[0].num();
      v = v * 1000000000ULL + (unsigned long long)L[1].num();
      v = v * 1000000000ULL + (unsigned long long)L[2].num();
      o.set("value", std::to_string(v));
      printedObs(rkcommon::prettyNumber((size_t)v), o);
    } else {
      o.set("ret", "unknown action " + a);
    }
    return o;
  }
};

int main(int argc, char **argv)
{
  return vdrv::run<World>(argc, argv);
}
