// element type int32_t of vec.h; partner element types of the mixed-type overloads: float, int64_t, uint32_t
#include "vecdrv.h"
namespace vd {
ITy *make_i() { return new TyOps<int32_t, float, int64_t, uint32_t>(); }
}  // namespace vd
