// element type double of vec.h; partner element types of the mixed-type overloads: float, int64_t
#include "vecdrv.h"
namespace vd {
ITy *make_d() { return new TyOps<double, float, int64_t>(); }
}  // namespace vd
