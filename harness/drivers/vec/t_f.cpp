// element type float of vec.h; partner element types of the mixed-type overloads: int32_t, double
#include "vecdrv.h"
namespace vd {
ITy *make_f() { return new TyOps<float, int32_t, double>(); }
}  // namespace vd
