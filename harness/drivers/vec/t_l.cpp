// element type int64_t of vec.h; partner element types of the mixed-type overloads: int32_t, double
#include "vecdrv.h"
namespace vd {
ITy *make_l() { return new TyOps<int64_t, int32_t, double>(); }
}  // namespace vd
