// element type int16_t of vec.h; partner element types of the mixed-type overloads: int8_t, double
#include "vecdrv.h"
namespace vd {
ITy *make_s() { return new TyOps<int16_t, int8_t, double>(); }
}  // namespace vd
