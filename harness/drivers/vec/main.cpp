// Conformance driver for spec/math/VecAlgebra.tla (property C04): dispatch on the element type.
//
// Input line: {"id":..,"ty":"i","h":[{"a":"Bin","arg":{...}}, ...]}; "ty" is one of the ten element
// types of vec.h's typedef list (uc c us s ui i ul l f d).  See vecdrv.h for the observations.
#include "vecdrv.h"

using vj::Json;

struct World
{
  vd::ITy *ty;
  World(const Json &hist) : ty(nullptr)
  {
    const std::string t = hist["ty"].str();
    if (t == "uc") ty = vd::make_uc();
    else if (t == "c") ty = vd::make_c();
    else if (t == "us") ty = vd::make_us();
    else if (t == "s") ty = vd::make_s();
    else if (t == "ui") ty = vd::make_ui();
    else if (t == "i") ty = vd::make_i();
    else if (t == "ul") ty = vd::make_ul();
    else if (t == "l") ty = vd::make_l();
    else if (t == "f") ty = vd::make_f();
    else if (t == "d") ty = vd::make_d();
  }
  ~World() { delete ty; }
  Json step(const Json &act)
  {
    if (!ty) {
      Json o = Json::object();
      o.set("ret", "unknown element type");
      return o;
    }
    return ty->step(act["a"].str(), act["arg"]);
  }
};

int main(int argc, char **argv)
{
  return vdrv::run<World>(argc, argv);
}
