// element type uint32_t of vec.h; partner element types of the mixed-type overloads: int32_t, uint64_t
#include "vecdrv.h"
namespace vd {
ITy *make_ui() { return new TyOps<uint32_t, int32_t, uint64_t>(); }
}  // namespace vd
