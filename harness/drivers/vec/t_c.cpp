// element type int8_t of vec.h; partner element types of the mixed-type overloads: int16_t, float
#include "vecdrv.h"
namespace vd {
ITy *make_c() { return new TyOps<int8_t, int16_t, float>(); }
}  // namespace vd
