// element type uint16_t of vec.h; partner element types of the mixed-type overloads: uint8_t, int32_t
#include "vecdrv.h"
namespace vd {
ITy *make_us() { return new TyOps<uint16_t, uint8_t, int32_t>(); }
}  // namespace vd
