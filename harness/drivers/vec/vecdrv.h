// Conformance driver for spec/math/VecAlgebra.tla (property C04) - the part that is
// instantiated once per element type (one translation unit per type, see t_*.cpp).
//
// The driver applies a case of the specification to EVERY overload family vec.h offers
// for the operation, for one element type T, and reports the result components as
// integers read from the members x, y, z, w.  It decides nothing: expected values come
// from TLC (VecAlgebraGen), tolerant results are validated by TLC (VecTolValidate) and
// recorded executions by the trace specification (VecTrace).
//
// Observation of a case: {op: {family: value}}.  A family name is
//   <kind>[.ca][.mx_<U>][.<padding>]            kind: vv | vs | sv | r | w | <target type>
// kind    which expected value of the specification applies (vec op vec, vec op scalar,
//         scalar op vec, the only form, ...)
// .ca     compound assignment (a op= b)
// .mx_U   the other operand has element type U (mixed element types)
// padding (3-vectors only) u = vec_t<T,3>, p = vec_t<T,3,true>; two letters for two operands
//
// Operands are built by assigning the members x, y, z, w and results are read from the
// members: operator[], the pointer view and the constructors are operations under test.
#pragma once
#include <cmath>
#include <cstring>
#include <functional>
#include <limits>
#include <sstream>
#include <string>
#include <type_traits>
#include "driver.h"
#include "rkcommon/math/vec.h"

namespace vd {

using namespace rkcommon::math;
using vj::Json;

struct ITy
{
  virtual ~ITy() {}
  virtual Json step(const std::string &a, const Json &arg) = 0;
};

// ---- element type names ------------------------------------------------------------------
template <typename T>
struct TN
{
  static const char *name() { return "?"; }
};
#define VD_TN(T, s) \
  template <>       \
  struct TN<T>      \
  {                 \
    static const char *name() { return s; } \
  };
VD_TN(uint8_t, "uc")
VD_TN(int8_t, "c")
VD_TN(uint16_t, "us")
VD_TN(int16_t, "s")
VD_TN(uint32_t, "ui")
VD_TN(int32_t, "i")
VD_TN(uint64_t, "ul")
VD_TN(int64_t, "l")
VD_TN(float, "f")
VD_TN(double, "d")
VD_TN(long long, "ll")
VD_TN(unsigned long long, "ull")
#undef VD_TN

// ---- scalars -------------------------------------------------------------------------------
template <typename T>
inline T sIn(const Json &j)
{
  return (T)j.num();
}
template <typename T>
inline Json soutImpl(T x, std::true_type)
{
  if (x != x) return Json("nan");
  if (std::isinf((double)x)) return Json(x > 0 ? "inf" : "-inf");
  const double d = (double)x;
  if (d == std::floor(d) && std::fabs(d) < 9e15) return Json((long long)d);
  return Json(d);
}
template <typename T>
inline Json soutImpl(T x, std::false_type)
{
  return Json((long long)x);
}
template <typename T>
inline Json sout(T x)
{
  return soutImpl<T>(x, std::is_floating_point<T>());
}
inline Json sout(bool b)
{
  return Json(b);
}

// ---- vectors: built from and read through the members ---------------------------------------
template <class V>
struct VX;
template <typename T>
struct VX<vec_t<T, 2>>
{
  typedef vec_t<T, 2> V;
  typedef T S;
  enum { N = 2, P = 0 };
  static V make(const Json &a)
  {
    V v;
    v.x = sIn<T>(a[(size_t)0]);
    v.y = sIn<T>(a[(size_t)1]);
    return v;
  }
  static Json out(const V &v)
  {
    Json j = Json::array();
    j.push(sout<T>(v.x));
    j.push(sout<T>(v.y));
    return j;
  }
  static V comps(const Json &a) { return V(sIn<T>(a[(size_t)0]), sIn<T>(a[(size_t)1])); }
  static T get(const V &v, int i) { return i == 0 ? v.x : v.y; }
  static void set(V &v, int i, T s) { (i == 0 ? v.x : v.y) = s; }
  static T &ref(V &v, int i) { return i == 0 ? v.x : v.y; }
};
template <typename T, bool A>
struct VX<vec_t<T, 3, A>>
{
  typedef vec_t<T, 3, A> V;
  typedef T S;
  enum { N = 3, P = A ? 1 : 0 };
  static V make(const Json &a)
  {
    V v;
    v.x = sIn<T>(a[(size_t)0]);
    v.y = sIn<T>(a[(size_t)1]);
    v.z = sIn<T>(a[(size_t)2]);
    return v;
  }
  static Json out(const V &v)
  {
    Json j = Json::array();
    j.push(sout<T>(v.x));
    j.push(sout<T>(v.y));
    j.push(sout<T>(v.z));
    return j;
  }
  static V comps(const Json &a) { return V(sIn<T>(a[(size_t)0]), sIn<T>(a[(size_t)1]), sIn<T>(a[(size_t)2])); }
  static T get(const V &v, int i) { return i == 0 ? v.x : i == 1 ? v.y : v.z; }
  static void set(V &v, int i, T s) { (i == 0 ? v.x : i == 1 ? v.y : v.z) = s; }
  static T &ref(V &v, int i) { return i == 0 ? v.x : i == 1 ? v.y : v.z; }
};
template <typename T>
struct VX<vec_t<T, 4>>
{
  typedef vec_t<T, 4> V;
  typedef T S;
  enum { N = 4, P = 0 };
  static V make(const Json &a)
  {
    V v;
    v.x = sIn<T>(a[(size_t)0]);
    v.y = sIn<T>(a[(size_t)1]);
    v.z = sIn<T>(a[(size_t)2]);
    v.w = sIn<T>(a[(size_t)3]);
    return v;
  }
  static Json out(const V &v)
  {
    Json j = Json::array();
    j.push(sout<T>(v.x));
    j.push(sout<T>(v.y));
    j.push(sout<T>(v.z));
    j.push(sout<T>(v.w));
    return j;
  }
  static V comps(const Json &a)
  {
    return V(sIn<T>(a[(size_t)0]), sIn<T>(a[(size_t)1]), sIn<T>(a[(size_t)2]), sIn<T>(a[(size_t)3]));
  }
  static T get(const V &v, int i) { return i == 0 ? v.x : i == 1 ? v.y : i == 2 ? v.z : v.w; }
  static void set(V &v, int i, T s) { (i == 0 ? v.x : i == 1 ? v.y : i == 2 ? v.z : v.w) = s; }
  static T &ref(V &v, int i) { return i == 0 ? v.x : i == 1 ? v.y : i == 2 ? v.z : v.w; }
};
template <class V>
inline Json outv(const V &v)
{
  return VX<V>::out(v);
}

inline void put(Json &o, const char *op, const std::string &fam, const Json &val)
{
  for (auto &p : o.o)
    if (p.first == op) {
      p.second.set(fam, val);
      return;
    }
  Json f = Json::object();
  f.set(fam, val);
  o.set(op, f);
}

// padding suffixes
template <class V>
inline std::string pad1()
{
  return VX<V>::N == 3 ? (VX<V>::P ? ".p" : ".u") : "";
}
template <class VA, class VB>
inline std::string pad2()
{
  return VX<VA>::N == 3 ? std::string(".") + (VX<VA>::P ? "p" : "u") + (VX<VB>::P ? "p" : "u") : "";
}

// ---- operations that exist only for some element types / shapes ------------------------------
// operator% and %= : integral element types
template <typename T, typename U, bool OK = std::is_integral<T>::value && std::is_integral<U>::value>
struct ModOp
{
  template <class VA, class VB>
  static void vv(const VA &a, const VB &b, const std::string &fam, Json &o) { put(o, "mod", fam, outv(a % b)); }
  template <class VA>
  static void vs(const VA &a, const U &s, const std::string &fam, Json &o) { put(o, "mod", fam, outv(a % s)); }
  template <class VB>
  static void sv(const U &s, const VB &b, const std::string &fam, Json &o) { put(o, "mod", fam, outv(s % b)); }
  template <class VA, class VB>
  static void cavv(const VA &a, const VB &b, const std::string &fam, Json &o)
  {
    VA t = a;
    t %= b;
    put(o, "mod", fam, outv(t));
  }
  template <class VA>
  static void cavs(const VA &a, const U &s, const std::string &fam, Json &o)
  {
    VA t = a;
    t %= s;
    put(o, "mod", fam, outv(t));
  }
};
template <typename T, typename U>
struct ModOp<T, U, false>
{
  template <class VA, class VB>
  static void vv(const VA &, const VB &, const std::string &, Json &) {}
  template <class VA>
  static void vs(const VA &, const U &, const std::string &, Json &) {}
  template <class VB>
  static void sv(const U &, const VB &, const std::string &, Json &) {}
  template <class VA, class VB>
  static void cavv(const VA &, const VB &, const std::string &, Json &) {}
  template <class VA>
  static void cavs(const VA &, const U &, const std::string &, Json &) {}
};

// abs: vec.h's abs(vec_t<uint32_t>) / abs(vec_t<uint64_t>) do not compile (std::abs is ambiguous): not offered
template <typename T, bool OK = !(std::is_same<T, uint32_t>::value || std::is_same<T, uint64_t>::value)>
struct AbsOp
{
  template <class V>
  static void run(const V &a, const std::string &fam, Json &o) { put(o, "abs", fam, outv(abs(a))); }
};
template <typename T>
struct AbsOp<T, false>
{
  template <class V>
  static void run(const V &, const std::string &, Json &) {}
};

// cross: 3-vectors, any padding combination
template <class VA, class VB, bool OK = VX<VA>::N == 3>
struct CrossOp
{
  static void run(const VA &a, const VB &b, const std::string &fam, Json &o) { put(o, "cross", fam, outv(cross(a, b))); }
};
template <class VA, class VB>
struct CrossOp<VA, VB, false>
{
  static void run(const VA &, const VB &, const std::string &, Json &) {}
};

// arg_max: unpadded vectors only (arg_max(vec_t<T,3,true>) is not offered)
template <class V, bool OK = VX<V>::P == 0>
struct ArgMaxOp
{
  static void run(const V &a, const std::string &fam, Json &o) { put(o, "argmax", fam, Json((long long)arg_max(a))); }
};
template <class V>
struct ArgMaxOp<V, false>
{
  static void run(const V &, const std::string &, Json &) {}
};

// madd: 3-vectors
template <class V, bool OK = VX<V>::N == 3>
struct MaddOp
{
  static void run(const V &a, const V &b, const V &c, const std::string &fam, Json &o) { put(o, "madd", fam, outv(madd(a, b, c))); }
  static V apply(const V &a, const V &b, const V &c) { return madd(a, b, c); }
};
template <class V>
struct MaddOp<V, false>
{
  static void run(const V &, const V &, const V &, const std::string &, Json &) {}
  static V apply(const V &a, const V &, const V &) { return a; }
};

// lerp: floating-point element types
template <class V, bool OK = std::is_floating_point<typename VX<V>::S>::value>
struct LerpOp
{
  static void run(long long k, const V &a, const V &b, const std::string &fam, Json &o)
  {
    put(o, "lerp", fam, outv(lerp((float)k / 4.f, a, b)));
  }
};
template <class V>
struct LerpOp<V, false>
{
  static void run(long long, const V &, const V &, const std::string &, Json &) {}
};

// streaming: the 8-bit element types stream characters - report the bytes; the others the text
template <typename T, class V>
inline Json streamOf(const V &a)
{
  std::ostringstream os;
  os << a;
  const std::string s = os.str();
  if (sizeof(T) == 1) {
    Json j = Json::array();
    for (unsigned char c : s) j.push(Json((long long)c));
    return j;
  }
  return Json(s);
}

// ---- group "un" -----------------------------------------------------------------------------------
template <typename T, class V>
static void unOps(const Json &arg, Json &o)
{
  const int N = VX<V>::N;
  const std::string p = pad1<V>();
  const Json &ja = arg["a"];
  const V a = VX<V>::make(ja);
  put(o, "neg", "r" + p, outv(-a));
  put(o, "pos", "r" + p, outv(+a));
  AbsOp<T>::run(a, "r" + p, o);
  put(o, "radd", "r.reduce" + p, sout<T>(reduce_add(a)));
  put(o, "radd", "r.sum" + p, sout<T>(a.sum()));
  put(o, "rmul", "r.reduce" + p, sout<T>(reduce_mul(a)));
  put(o, "rmul", "r.product" + p, sout<T>(a.product()));
  put(o, "lprod", "r" + p, Json((long long)a.long_product()));
  put(o, "rmin", "r" + p, sout<T>(reduce_min(a)));
  put(o, "rmax", "r" + p, sout<T>(reduce_max(a)));
  ArgMaxOp<V>::run(a, "r" + p, o);
  put(o, "eqself", "r" + p, Json(a == a));
  put(o, "stream", "r" + p, streamOf<T, V>(a));
  put(o, "length", "r" + p, sout<T>(length(a)));
  // index maps
  {
    Json byIndex = Json::array(), byPtr = Json::array(), byAddr = Json::array(), byMutIndex = Json::array(), byMutPtr = Json::array();
    const T *cp = a;
    V m = a;
    T *mp = m;
    for (size_t i = 0; i < (size_t)N; ++i) {
      byIndex.push(sout<T>(a[i]));
      byPtr.push(sout<T>(cp[i]));
      byAddr.push(sout<T>((&a.x)[i]));
      byMutIndex.push(sout<T>(m[i]));
      byMutPtr.push(sout<T>(mp[i]));
    }
    put(o, "idx", "r.index" + p, byIndex);
    put(o, "idx", "r.ptr" + p, byPtr);
    put(o, "idx", "r.addr" + p, byAddr);
    put(o, "idx", "r.mindex" + p, byMutIndex);
    put(o, "idx", "r.mptr" + p, byMutPtr);
    put(o, "idx", "r.comps" + p, outv(VX<V>::comps(ja)));
    T mem[5];
    for (int i = 0; i < 5; ++i) mem[i] = i < N ? sIn<T>(ja[(size_t)i]) : (T)99;
    put(o, "idx", "r.fromptr" + p, outv(V((const T *)mem)));
    put(o, "idx", "r.copy" + p, outv(V(a)));
    if (arg.has("wv")) {
      const Json &wv = arg["wv"];
      Json wIndex = Json::array(), wPtr = Json::array();
      for (size_t i = 0; i < (size_t)N; ++i) {
        V t = a;
        t[i] = sIn<T>(wv[i]);
        wIndex.push(outv(t));
        V u = a;
        T *q = u;
        q[i] = sIn<T>(wv[i]);
        wPtr.push(outv(u));
      }
      put(o, "idx", "w.index" + p, wIndex);
      put(o, "idx", "w.ptr" + p, wPtr);
    }
  }
}
// degenerate operand: the zero vector.  safe_normalize exists for exactly this operand (floating-point element types)
template <typename T, class V, bool FLT = std::is_floating_point<T>::value>
struct SafeNorm0
{
  static void run(const V &a, const std::string &fam, Json &o) { put(o, "safenorm0", fam, outv(safe_normalize(a))); }
};
template <typename T, class V>
struct SafeNorm0<T, V, false>
{
  static void run(const V &, const std::string &, Json &) {}
};
// sin / cos / length / safe_normalize at 0 (case "Zero")
template <typename T, class V>
static void zeroOps(const Json &arg, Json &o)
{
  const std::string p = pad1<V>();
  const V a = VX<V>::make(arg["a"]);
  put(o, "sin0", "r" + p, outv(sin(a)));
  put(o, "cos0", "r" + p, outv(cos(a)));
  put(o, "length0", "r" + p, sout<T>(length(a)));
  SafeNorm0<T, V>::run(a, "r" + p, o);
}

// ---- group "bin" / "cmp" ----------------------------------------------------------------------------
// every operation offered for two vectors of possibly different padding
template <typename T, class VA, class VB>
static void binVV(const Json &arg, Json &o, bool arith)
{
  const std::string p = pad2<VA, VB>();
  const VA a = VX<VA>::make(arg["a"]);
  const VB b = VX<VB>::make(arg["b"]);
  const bool dv = !arg["nd"].boolean();  // "nd": an operand of the divisions is zero - / % divRoundUp are not evaluated
  if (arith) {
    put(o, "add", "vv" + p, outv(a + b));
    put(o, "sub", "vv" + p, outv(a - b));
    put(o, "mul", "vv" + p, outv(a * b));
    if (dv) put(o, "div", "vv" + p, outv(a / b));
    if (dv) ModOp<T, T>::vv(a, b, "vv" + p, o);
    {
      VA t = a;
      t += b;
      put(o, "add", "vv.ca" + p, outv(t));
    }
    {
      VA t = a;
      t -= b;
      put(o, "sub", "vv.ca" + p, outv(t));
    }
    {
      VA t = a;
      t *= b;
      put(o, "mul", "vv.ca" + p, outv(t));
    }
    if (dv) {
      VA t = a;
      t /= b;
      put(o, "div", "vv.ca" + p, outv(t));
    }
    if (dv) ModOp<T, T>::cavv(a, b, "vv.ca" + p, o);
    put(o, "dot", "vv" + p, sout<T>(dot(a, b)));
    CrossOp<VA, VB>::run(a, b, "vv" + p, o);
  }
  put(o, "eq", "vv" + p, Json(a == b));
  put(o, "ne", "vv" + p, Json(a != b));
  put(o, "anylt", "vv" + p, Json(anyLessThan(a, b)));
}
// operations offered only for two vectors of the same type, and the vector / scalar forms
template <typename T, class V>
static void binSame(const Json &arg, Json &o, bool arith)
{
  const std::string p2 = pad2<V, V>(), p1 = pad1<V>();
  const V a = VX<V>::make(arg["a"]);
  const V b = VX<V>::make(arg["b"]);
  put(o, "min", "vv" + p2, outv(min(a, b)));
  put(o, "max", "vv" + p2, outv(max(a, b)));
  put(o, "less", "vv" + p2, Json(std::less<V>()(a, b)));
  if (!arith) return;
  const bool dv = !arg["nd"].boolean();
  if (dv) put(o, "dru", "vv" + p2, outv(divRoundUp(a, b)));
  const T s = sIn<T>(arg["s"]);
  put(o, "add", "vs" + p1, outv(a + s));
  put(o, "sub", "vs" + p1, outv(a - s));
  put(o, "mul", "vs" + p1, outv(a * s));
  if (dv) put(o, "div", "vs" + p1, outv(a / s));
  if (dv) ModOp<T, T>::vs(a, s, "vs" + p1, o);
  put(o, "add", "sv" + p1, outv(s + b));
  put(o, "sub", "sv" + p1, outv(s - b));
  put(o, "mul", "sv" + p1, outv(s * b));
  if (dv) put(o, "div", "sv" + p1, outv(s / b));
  if (dv) ModOp<T, T>::sv(s, b, "sv" + p1, o);
  {
    V t = a;
    t += s;
    put(o, "add", "vs.ca" + p1, outv(t));
  }
  {
    V t = a;
    t -= s;
    put(o, "sub", "vs.ca" + p1, outv(t));
  }
  {
    V t = a;
    t *= s;
    put(o, "mul", "vs.ca" + p1, outv(t));
  }
  if (dv) {
    V t = a;
    t /= s;
    put(o, "div", "vs.ca" + p1, outv(t));
  }
  if (dv) ModOp<T, T>::cavs(a, s, "vs.ca" + p1, o);
}

// mixed element types: vec<T> op vec<U>, vec<T> op U, U op vec<T>, vec<T> op= vec<U>, vec<T> op= U
// compound assignment of a floating-point value to an unsigned element type is left out (a negative intermediate
// result would be converted to unsigned: undefined behaviour, not decided)
template <typename T, typename U>
struct CompoundMixedOK
{
  static const bool value = !(std::is_integral<T>::value && std::is_unsigned<T>::value && std::is_floating_point<U>::value);
};
template <typename T, typename U, class VT_, class VU_, bool CA = CompoundMixedOK<T, U>::value>
struct MixedCompound
{
  static void run(const VT_ &a, const VU_ &b, const U &su, const std::string &m, bool dv, Json &o)
  {
    {
      VT_ t = a;
      t += b;
      put(o, "add", "vv.ca" + m, outv(t));
    }
    {
      VT_ t = a;
      t -= b;
      put(o, "sub", "vv.ca" + m, outv(t));
    }
    {
      VT_ t = a;
      t *= b;
      put(o, "mul", "vv.ca" + m, outv(t));
    }
    if (dv) {
      VT_ t = a;
      t /= b;
      put(o, "div", "vv.ca" + m, outv(t));
    }
    if (dv) ModOp<T, U>::cavv(a, b, "vv.ca" + m, o);
    {
      VT_ t = a;
      t += su;
      put(o, "add", "vs.ca" + m, outv(t));
    }
    {
      VT_ t = a;
      t -= su;
      put(o, "sub", "vs.ca" + m, outv(t));
    }
    {
      VT_ t = a;
      t *= su;
      put(o, "mul", "vs.ca" + m, outv(t));
    }
    if (dv) {
      VT_ t = a;
      t /= su;
      put(o, "div", "vs.ca" + m, outv(t));
    }
    if (dv) ModOp<T, U>::cavs(a, su, "vs.ca" + m, o);
  }
};
template <typename T, typename U, class VT_, class VU_>
struct MixedCompound<T, U, VT_, VU_, false>
{
  static void run(const VT_ &, const VU_ &, const U &, const std::string &, bool, Json &) {}
};

template <typename T, typename U, int N, bool A>
static void binMixed(const Json &arg, Json &o, Json &rt)
{
  typedef vec_t<T, N, A> VT_;
  typedef vec_t<U, N, A> VU_;
  const std::string m = std::string(".mx_") + TN<U>::name() + pad1<VT_>();
  const VT_ a = VX<VT_>::make(arg["a"]);
  const VT_ bt = VX<VT_>::make(arg["b"]);
  const VU_ b = VX<VU_>::make(arg["b"]);
  const U su = sIn<U>(arg["s"]);
  const bool dv = !arg["nd"].boolean();
  put(o, "add", "vv" + m, outv(a + b));
  put(o, "sub", "vv" + m, outv(a - b));
  put(o, "mul", "vv" + m, outv(a * b));
  if (dv) put(o, "div", "vv" + m, outv(a / b));
  if (dv) ModOp<T, U>::vv(a, b, "vv" + m, o);
  put(o, "add", "vs" + m, outv(a + su));
  put(o, "sub", "vs" + m, outv(a - su));
  put(o, "mul", "vs" + m, outv(a * su));
  if (dv) put(o, "div", "vs" + m, outv(a / su));
  if (dv) ModOp<T, U>::vs(a, su, "vs" + m, o);
  put(o, "add", "sv" + m, outv(su + bt));
  put(o, "sub", "sv" + m, outv(su - bt));
  put(o, "mul", "sv" + m, outv(su * bt));
  if (dv) put(o, "div", "sv" + m, outv(su / bt));
  if (dv) ModOp<T, U>::sv(su, bt, "sv" + m, o);
  MixedCompound<T, U, VT_, VU_>::run(a, b, su, m, dv, o);
  // element type of the results of the three mixed forms (overload routing)
  typedef decltype(a + b) R1;
  typedef decltype(a + su) R2;
  typedef decltype(su + bt) R3;
  Json r = Json::array();
  r.push(Json(TN<typename R1::scalar_t>::name()));
  r.push(Json(TN<typename R2::scalar_t>::name()));
  r.push(Json(TN<typename R3::scalar_t>::name()));
  rt.set(std::string("mx_") + TN<U>::name() + pad1<VT_>(), r);
}
template <typename T, int N, bool A, typename... Us>
struct MixedAll;
template <typename T, int N, bool A>
struct MixedAll<T, N, A>
{
  static void run(const Json &, Json &, Json &) {}
};
template <typename T, int N, bool A, typename U, typename... Us>
struct MixedAll<T, N, A, U, Us...>
{
  static void run(const Json &arg, Json &o, Json &rt)
  {
    binMixed<T, U, N, A>(arg, o, rt);
    MixedAll<T, N, A, Us...>::run(arg, o, rt);
  }
};

// ---- group "mca": compound assignment whose right-hand side has another arithmetic type U ----------------
// scalar = sn / sd and vector = bn[i] / sd, built in U (sd is a power of two: exact); families vs.ca.sx_<U>, vv.ca.sx_<U>
template <typename T, typename U, class V, class VU>
static void mcaOps(const Json &arg, Json &o)
{
  const std::string m = std::string(".ca.sx_") + TN<U>::name() + pad1<V>();
  const V a = VX<V>::make(arg["a"]);
  const U sd = sIn<U>(arg["sd"]);
  const U s = sIn<U>(arg["sn"]) / sd;
  VU b = VX<VU>::make(arg["bn"]);
  b.x = b.x / sd;
  b.y = b.y / sd;
  for (int i = 2; i < (int)VX<VU>::N; ++i) (&b.x)[i] = (&b.x)[i] / sd;
  {
    V t = a;
    t += s;
    put(o, "add", "vs" + m, outv(t));
  }
  {
    V t = a;
    t -= s;
    put(o, "sub", "vs" + m, outv(t));
  }
  {
    V t = a;
    t *= s;
    put(o, "mul", "vs" + m, outv(t));
  }
  {
    V t = a;
    t /= s;
    put(o, "div", "vs" + m, outv(t));
  }
  ModOp<T, U>::cavs(a, s, "vs" + m, o);
  {
    V t = a;
    t += b;
    put(o, "add", "vv" + m, outv(t));
  }
  {
    V t = a;
    t -= b;
    put(o, "sub", "vv" + m, outv(t));
  }
  {
    V t = a;
    t *= b;
    put(o, "mul", "vv" + m, outv(t));
  }
  {
    V t = a;
    t /= b;
    put(o, "div", "vv" + m, outv(t));
  }
  ModOp<T, U>::cavv(a, b, "vv" + m, o);
}
template <typename T, typename U>
static void mcaShapes(const Json &arg, Json &o)
{
  const int n = (int)arg["a"].size();
  if (n == 2) mcaOps<T, U, vec_t<T, 2>, vec_t<U, 2>>(arg, o);
  else if (n == 3) {
    mcaOps<T, U, vec_t<T, 3>, vec_t<U, 3>>(arg, o);
    mcaOps<T, U, vec_t<T, 3, true>, vec_t<U, 3, true>>(arg, o);
  } else mcaOps<T, U, vec_t<T, 4>, vec_t<U, 4>>(arg, o);
}

// ---- group "alias": operands that alias each other (x op= x, a scalar operand that IS a component of the left-hand vector) ------
template <typename T, class V>
static void aliasOps(const Json &arg, Json &o)
{
  const std::string p = pad1<V>();
  const std::string p2 = pad2<V, V>();
  const V a = VX<V>::make(arg["a"]);
  const int k = (int)arg["k"].num();
  // non-assigning forms with aliasing operands
  put(o, "add", "vv.alias" + p2, outv(a + a));
  put(o, "sub", "vv.alias" + p2, outv(a - a));
  put(o, "mul", "vv.alias" + p2, outv(a * a));
  put(o, "div", "vv.alias" + p2, outv(a / a));
  put(o, "min", "vv.alias" + p2, outv(min(a, a)));
  put(o, "max", "vv.alias" + p2, outv(max(a, a)));
  {
    V t = a;
    put(o, "add", "vs.alias" + p, outv(t + VX<V>::ref(t, k)));
    put(o, "sub", "vs.alias" + p, outv(t - VX<V>::ref(t, k)));
    put(o, "mul", "vs.alias" + p, outv(t * VX<V>::ref(t, k)));
    put(o, "div", "vs.alias" + p, outv(t / VX<V>::ref(t, k)));
    put(o, "add", "sv.alias" + p, outv(VX<V>::ref(t, k) + t));
    put(o, "mul", "sv.alias" + p, outv(VX<V>::ref(t, k) * t));
    put(o, "sub", "sv.alias" + p, outv(VX<V>::ref(t, k) - t));
    put(o, "div", "sv.alias" + p, outv(VX<V>::ref(t, k) / t));
  }
  // t op= t
  {
    V t = a;
    t += t;
    put(o, "add", "vv.ca.alias" + p2, outv(t));
  }
  {
    V t = a;
    t -= t;
    put(o, "sub", "vv.ca.alias" + p2, outv(t));
  }
  {
    V t = a;
    t *= t;
    put(o, "mul", "vv.ca.alias" + p2, outv(t));
  }
  {
    V t = a;
    t /= t;
    put(o, "div", "vv.ca.alias" + p2, outv(t));
  }
  // t op= t.<component k>: the scalar operand is a component of the vector that is being assigned
  {
    V t = a;
    t += VX<V>::ref(t, k);
    put(o, "add", "vs.ca.alias" + p, outv(t));
  }
  {
    V t = a;
    t -= VX<V>::ref(t, k);
    put(o, "sub", "vs.ca.alias" + p, outv(t));
  }
  {
    V t = a;
    t *= VX<V>::ref(t, k);
    put(o, "mul", "vs.ca.alias" + p, outv(t));
  }
  {
    V t = a;
    t /= VX<V>::ref(t, k);
    put(o, "div", "vs.ca.alias" + p, outv(t));
  }
  {
    V t = a;
    t = t;  // self-assignment
    put(o, "pos", "r.selfassign" + p, outv(t));
  }
}

// ---- group "tern" -------------------------------------------------------------------------------------
template <typename T, class V>
static void ternOps(const Json &arg, Json &o)
{
  const std::string p = pad1<V>();
  const V a = VX<V>::make(arg["a"]), b = VX<V>::make(arg["b"]), c = VX<V>::make(arg["c"]);
  const vec_t<T, 3> f = VX<vec_t<T, 3>>::make(arg["f"]);
  put(o, "interp", "r" + p, outv(interpolate_uv(f, a, b, c)));
  put(o, "clamp", "r" + p, outv(clamp(a, b, c)));
  MaddOp<V>::run(a, b, c, "r" + p, o);
  LerpOp<V>::run(arg["k"].num(), a, b, "r" + p, o);
}

// ---- group "conv" ---------------------------------------------------------------------------------------
// shape-extending constructors fed with vectors of another element type U
template <typename T, typename U, int N, bool A>
struct ShapeFrom
{
  static void run(const Json &, Json &) {}
};
template <typename T, typename U>
struct ShapeFrom<T, U, 2, false>
{
  static void run(const Json &arg, Json &o)
  {
    const vec_t<U, 2> a = VX<vec_t<U, 2>>::make(arg["a"]), q = VX<vec_t<U, 2>>::make(arg["q"]);
    const T z = sIn<T>(arg["z"]);
    const std::string f = std::string("r.from_") + TN<U>::name();
    put(o, "v3from2", f + ".u", outv(vec_t<T, 3>(a, z)));
    put(o, "v3from2", f + ".p", outv(vec_t<T, 3, true>(a, z)));
    put(o, "v4from22", f, outv(vec_t<T, 4>(a, q)));
  }
};
template <typename T, typename U, bool A>
struct ShapeFrom<T, U, 3, A>
{
  static void run(const Json &arg, Json &o)
  {
    const vec_t<U, 3, A> a = VX<vec_t<U, 3, A>>::make(arg["a"]);
    const T z = sIn<T>(arg["z"]);
    put(o, "v4from3", std::string("r.from_") + TN<U>::name() + (A ? ".p" : ".u"), outv(vec_t<T, 4>(a, z)));
  }
};

template <typename T, typename U, int N, bool A>
static void convTo(const Json &arg, Json &o)
{
  ShapeFrom<T, U, N, A>::run(arg, o);
  typedef vec_t<T, N, A> V;
  typedef vec_t<U, N, A> W;
  const std::string p = pad1<V>();
  const V a = VX<V>::make(arg["a"]);
  put(o, "conv", std::string(TN<U>::name()) + ".ctor" + p, outv(W(a)));
  put(o, "conv", std::string(TN<U>::name()) + ".cast" + p, outv(static_cast<W>(a)));
  put(o, "conv", std::string(TN<U>::name()) + ".op" + p, outv(a.operator W()));  // the explicit conversion operator itself
  {
    W w = a;  // copy-initialisation through the converting constructor
    put(o, "conv", std::string(TN<U>::name()) + ".init" + p, outv(w));
  }
  // scalar of another element type splat into vec<T>
  put(o, "splat", std::string("r.from_") + TN<U>::name() + p, outv(V(sIn<U>(arg["z"]))));
}
template <typename T, int N, bool A>
static void convAll(const Json &arg, Json &o)
{
  convTo<T, uint8_t, N, A>(arg, o);
  convTo<T, int8_t, N, A>(arg, o);
  convTo<T, uint16_t, N, A>(arg, o);
  convTo<T, int16_t, N, A>(arg, o);
  convTo<T, uint32_t, N, A>(arg, o);
  convTo<T, int32_t, N, A>(arg, o);
  convTo<T, uint64_t, N, A>(arg, o);
  convTo<T, int64_t, N, A>(arg, o);
  convTo<T, float, N, A>(arg, o);
  convTo<T, double, N, A>(arg, o);
}
template <typename T>
static void convShapes(int n, const Json &arg, Json &o)
{
  const T z = sIn<T>(arg["z"]);
  if (n == 2) {
    const vec_t<T, 2> a = VX<vec_t<T, 2>>::make(arg["a"]), q = VX<vec_t<T, 2>>::make(arg["q"]);
    put(o, "v3from2", "r.u", outv(vec_t<T, 3>(a, z)));
    put(o, "v3from2", "r.p", outv(vec_t<T, 3, true>(a, z)));
    put(o, "v4from22", "r", outv(vec_t<T, 4>(a, q)));
    put(o, "splat", "r", outv(vec_t<T, 2>(z)));
    convAll<T, 2, false>(arg, o);
  } else if (n == 3) {
    const vec_t<T, 3> a = VX<vec_t<T, 3>>::make(arg["a"]);
    const vec_t<T, 3, true> ap = VX<vec_t<T, 3, true>>::make(arg["a"]);
    put(o, "v4from3", "r.u", outv(vec_t<T, 4>(a, z)));
    put(o, "v4from3", "r.p", outv(vec_t<T, 4>(ap, z)));
    put(o, "repad", "r.to_p", outv(vec_t<T, 3, true>(a)));
    put(o, "repad", "r.to_u", outv(vec_t<T, 3>(ap)));
    {
      vec_t<T, 3> u = ap;  // implicit: conversion operator / converting constructor
      put(o, "repad", "r.init_u", outv(u));
      vec_t<T, 3, true> pp = a;
      put(o, "repad", "r.init_p", outv(pp));
      vec_t<T, 3> viaOp = ap.operator vec_t<T, 3>();
      put(o, "repad", "r.op_u", outv(viaOp));
    }
    put(o, "splat", "r.u", outv(vec_t<T, 3>(z)));
    put(o, "splat", "r.p", outv(vec_t<T, 3, true>(z)));
    convAll<T, 3, false>(arg, o);
    convAll<T, 3, true>(arg, o);
  } else {
    put(o, "splat", "r", outv(vec_t<T, 4>(z)));
    convAll<T, 4, false>(arg, o);
  }
}

// ---- group "lift": the lifting law on GENERAL operands (validated by VecLiftValidate) -------------------------
// For every operator and overload family the driver records (v) the components of the vector operator's result and
// (s) the result of the corresponding C++ SCALAR operator / function applied to each component pair, both as bit
// patterns cut into 16-bit pieces (most significant first).  Both are observations; TLC judges v = s.
template <typename T>
inline T gIn(const Json &j)
{
  return std::is_floating_point<T>::value ? (T)j.dbl() : (T)j.num();
}
template <class V>
inline V mkG(const Json &a)
{
  V v;
  for (int i = 0; i < (int)VX<V>::N; ++i) VX<V>::set(v, i, gIn<typename VX<V>::S>(a[(size_t)i]));
  return v;
}
// infinities cannot be written in JSON: "<name>_inf" holds a code per component (0 none, 1 +inf, -1 -inf; floating point only)
template <typename T>
inline T withInf(T x, long long code, std::true_type)
{
  return code > 0 ? std::numeric_limits<T>::infinity() : code < 0 ? -std::numeric_limits<T>::infinity() : x;
}
template <typename T>
inline T withInf(T x, long long, std::false_type)
{
  return x;
}
template <class V>
inline V mkGI(const Json &arg, const char *name)
{
  typedef typename VX<V>::S T;
  V v = mkG<V>(arg[name]);
  const std::string key = std::string(name) + "_inf";
  if (arg.has(key))
    for (int i = 0; i < (int)VX<V>::N; ++i)
      VX<V>::set(v, i, withInf<T>(VX<V>::get(v, i), arg[key][(size_t)i].num(), std::is_floating_point<T>()));
  return v;
}
template <typename T>
inline T gInI(const Json &arg, const char *name)
{
  const std::string key = std::string(name) + "_inf";
  return withInf<T>(gIn<T>(arg[name]), arg.has(key) ? arg[key].num() : 0, std::is_floating_point<T>());
}
template <typename R>
inline void pushBits(Json &j, R x)
{
  unsigned char raw[sizeof(R)];
  std::memcpy(raw, &x, sizeof(R));
  if (sizeof(R) == 1) {
    j.push(Json((long long)raw[0]));
    return;
  }
  for (int k = (int)sizeof(R) - 2; k >= 0; k -= 2) j.push(Json((long long)(raw[k] | (raw[k + 1] << 8))));  // little endian host
}
template <class VR>
inline Json bitsv(const VR &v)
{
  Json j = Json::array();
  for (int i = 0; i < (int)VX<VR>::N; ++i) pushBits<typename VX<VR>::S>(j, VX<VR>::get(v, i));
  return j;
}
// kind of the recorded element type: "f" (float: 2 pieces per component), "d" (double: 4), "i" (an integer type); TLC accepts
// NaN = NaN for the floating kinds (payload and sign of a NaN are not part of the law)
template <typename R>
inline const char *kindOf()
{
  return std::is_floating_point<R>::value ? (sizeof(R) == 4 ? "f" : "d") : "i";
}
inline void putLiftK(Json &o, const char *op, const std::string &fam, const Json &v, const Json &s, const char *k)
{
  Json e = Json::object();
  e.set("k", Json(k));
  e.set("v", v);
  e.set("s", s);
  put(o, op, fam, e);
}
struct OpAdd
{
  static const char *nm() { return "add"; }
  template <class X, class Y>
  static auto ap(const X &x, const Y &y) -> decltype(x + y) { return x + y; }
  template <class X, class Y>
  static void as(X &x, const Y &y) { x += y; }
};
struct OpSub
{
  static const char *nm() { return "sub"; }
  template <class X, class Y>
  static auto ap(const X &x, const Y &y) -> decltype(x - y) { return x - y; }
  template <class X, class Y>
  static void as(X &x, const Y &y) { x -= y; }
};
struct OpMul
{
  static const char *nm() { return "mul"; }
  template <class X, class Y>
  static auto ap(const X &x, const Y &y) -> decltype(x * y) { return x * y; }
  template <class X, class Y>
  static void as(X &x, const Y &y) { x *= y; }
};
struct OpDiv
{
  static const char *nm() { return "div"; }
  template <class X, class Y>
  static auto ap(const X &x, const Y &y) -> decltype(x / y) { return x / y; }
  template <class X, class Y>
  static void as(X &x, const Y &y) { x /= y; }
};
struct OpMod
{
  static const char *nm() { return "mod"; }
  template <class X, class Y>
  static auto ap(const X &x, const Y &y) -> decltype(x % y) { return x % y; }
  template <class X, class Y>
  static void as(X &x, const Y &y) { x %= y; }
};
// one operator, every form, for a pair (VA, VB) of vector types (element types T, U may differ)
template <class OP, class VA, class VB, bool ON>
struct LiftBin
{
  typedef typename VX<VA>::S T;
  typedef typename VX<VB>::S U;
  enum { N = VX<VA>::N };
  // vec op vec
  static void vv(const VA &a, const VB &b, const std::string &fam, Json &o)
  {
    typedef decltype(OP::ap(a, b)) VR;
    typedef typename VR::scalar_t R;
    const VR r = OP::ap(a, b);
    Json s = Json::array();
    for (int i = 0; i < N; ++i) pushBits<R>(s, (R)OP::ap(VX<VA>::get(a, i), VX<VB>::get(b, i)));
    putLiftK(o, OP::nm(), fam, bitsv(r), s, kindOf<R>());
  }
  // vec op scalar (scalar of type U)
  static void vs(const VA &a, const U &c, const std::string &fam, Json &o)
  {
    typedef decltype(OP::ap(a, c)) VR;
    typedef typename VR::scalar_t R;
    const VR r = OP::ap(a, c);
    Json s = Json::array();
    for (int i = 0; i < N; ++i) pushBits<R>(s, (R)OP::ap(VX<VA>::get(a, i), c));
    putLiftK(o, OP::nm(), fam, bitsv(r), s, kindOf<R>());
  }
  // scalar (type U) op vec<T>
  static void sv(const U &c, const VA &b, const std::string &fam, Json &o)
  {
    typedef decltype(OP::ap(c, b)) VR;
    typedef typename VR::scalar_t R;
    const VR r = OP::ap(c, b);
    Json s = Json::array();
    for (int i = 0; i < N; ++i) pushBits<R>(s, (R)OP::ap(c, VX<VA>::get(b, i)));
    putLiftK(o, OP::nm(), fam, bitsv(r), s, kindOf<R>());
  }
  // vec op= vec, vec op= scalar: the scalar compound assignment on every component
  static void cavv(const VA &a, const VB &b, const std::string &fam, Json &o)
  {
    VA t = a;
    OP::as(t, b);
    Json s = Json::array();
    for (int i = 0; i < N; ++i) {
      T x = VX<VA>::get(a, i);
      OP::as(x, VX<VB>::get(b, i));
      pushBits<T>(s, x);
    }
    putLiftK(o, OP::nm(), fam, bitsv(t), s, kindOf<T>());
  }
  static void cavs(const VA &a, const U &c, const std::string &fam, Json &o)
  {
    VA t = a;
    OP::as(t, c);
    Json s = Json::array();
    for (int i = 0; i < N; ++i) {
      T x = VX<VA>::get(a, i);
      OP::as(x, c);
      pushBits<T>(s, x);
    }
    putLiftK(o, OP::nm(), fam, bitsv(t), s, kindOf<T>());
  }
};
template <class OP, class VA, class VB>
struct LiftBin<OP, VA, VB, false>
{
  typedef typename VX<VB>::S U;
  static void vv(const VA &, const VB &, const std::string &, Json &) {}
  static void vs(const VA &, const U &, const std::string &, Json &) {}
  static void sv(const U &, const VA &, const std::string &, Json &) {}
  static void cavv(const VA &, const VB &, const std::string &, Json &) {}
  static void cavs(const VA &, const U &, const std::string &, Json &) {}
};
// which operators are recorded for an (element type, other type) pair: + - * where the language defines the result for ALL operand
// values (floating point; unsigned wrap-around; narrow integers computed in int) - signed int32 / int64 overflow is undefined and
// is not recorded -, / always, % for two integral types
template <typename T, typename U>
struct LiftOn
{
  static const bool anyflt = std::is_floating_point<T>::value || std::is_floating_point<U>::value;
  typedef decltype(T() + U()) R;
  // integer + - : defined when the common type is unsigned (wrap-around) or both types are narrower than int (no overflow in int)
  static const bool addsub = anyflt || std::is_unsigned<R>::value || (sizeof(T) < 4 && sizeof(U) < 4);
  // integer * : unsigned common type, or products that fit int (8 x 8, 8 x 16 bit, int16 x int16); uint16 x uint16 overflows int
  static const bool mul = anyflt || std::is_unsigned<R>::value || (sizeof(T) + sizeof(U) <= 3)
      || (std::is_same<T, int16_t>::value && std::is_same<U, int16_t>::value);
  static const bool flt = anyflt;
  static const bool mod = std::is_integral<T>::value && std::is_integral<U>::value;
  // op= of a floating-point value into an integer element: the conversion back can be out of range (undefined): not recorded
  static const bool ca = !(std::is_integral<T>::value && std::is_floating_point<U>::value);
};
template <class VA, class VB>
static void liftArith(const VA &a, const VB &b, const typename VX<VB>::S &c, const VA &bt, const std::string &m, const std::string &mp2,
                      bool plain, bool div, Json &o)
{
  typedef typename VX<VA>::S T;
  typedef typename VX<VB>::S U;
  typedef LiftOn<T, U> On;
  // m: suffix of the vs / sv / compound-scalar families, mp2: suffix of the vec-vec families
  if (plain) {
    LiftBin<OpAdd, VA, VB, On::addsub>::vv(a, b, "vv" + mp2, o);
    LiftBin<OpSub, VA, VB, On::addsub>::vv(a, b, "vv" + mp2, o);
    LiftBin<OpMul, VA, VB, On::mul>::vv(a, b, "vv" + mp2, o);
    LiftBin<OpAdd, VA, VB, On::addsub && On::ca>::cavv(a, b, "vv.ca" + mp2, o);
    LiftBin<OpSub, VA, VB, On::addsub && On::ca>::cavv(a, b, "vv.ca" + mp2, o);
    LiftBin<OpMul, VA, VB, On::mul && On::ca>::cavv(a, b, "vv.ca" + mp2, o);
  }
  if (div) {
    LiftBin<OpDiv, VA, VB, true>::vv(a, b, "vv" + mp2, o);
    LiftBin<OpMod, VA, VB, On::mod>::vv(a, b, "vv" + mp2, o);
    LiftBin<OpDiv, VA, VB, On::ca>::cavv(a, b, "vv.ca" + mp2, o);
    LiftBin<OpMod, VA, VB, On::mod>::cavv(a, b, "vv.ca" + mp2, o);
  }
  if (m.empty() && mp2.size() && VX<VA>::P != VX<VB>::P) return;  // scalar forms once per vector type (not for mixed padding)
  if (plain) {
    LiftBin<OpAdd, VA, VB, On::addsub>::vs(a, c, "vs" + m, o);
    LiftBin<OpSub, VA, VB, On::addsub>::vs(a, c, "vs" + m, o);
    LiftBin<OpMul, VA, VB, On::mul>::vs(a, c, "vs" + m, o);
    LiftBin<OpAdd, VA, VB, On::addsub>::sv(c, bt, "sv" + m, o);
    LiftBin<OpSub, VA, VB, On::addsub>::sv(c, bt, "sv" + m, o);
    LiftBin<OpMul, VA, VB, On::mul>::sv(c, bt, "sv" + m, o);
    LiftBin<OpAdd, VA, VB, On::addsub && On::ca>::cavs(a, c, "vs.ca" + m, o);
    LiftBin<OpSub, VA, VB, On::addsub && On::ca>::cavs(a, c, "vs.ca" + m, o);
    LiftBin<OpMul, VA, VB, On::mul && On::ca>::cavs(a, c, "vs.ca" + m, o);
  }
  if (div) {
    LiftBin<OpDiv, VA, VB, true>::vs(a, c, "vs" + m, o);
    LiftBin<OpMod, VA, VB, On::mod>::vs(a, c, "vs" + m, o);
    LiftBin<OpDiv, VA, VB, true>::sv(c, bt, "sv" + m, o);
    LiftBin<OpMod, VA, VB, On::mod>::sv(c, bt, "sv" + m, o);
    LiftBin<OpDiv, VA, VB, On::ca>::cavs(a, c, "vs.ca" + m, o);
    LiftBin<OpMod, VA, VB, On::mod>::cavs(a, c, "vs.ca" + m, o);
  }
}
// unary functors that exist for floating-point element types only
template <typename T, class V, bool FLT = std::is_floating_point<T>::value>
struct LiftFltUnary
{
  static void run(const V &a, const std::string &p, Json &o)
  {
    const int N = VX<V>::N;
    Json s1 = Json::array(), s2 = Json::array(), s3 = Json::array(), s4 = Json::array();
    for (int i = 0; i < N; ++i) {
      const T x = VX<V>::get(a, i);
      pushBits<T>(s1, rcp(x));
      pushBits<T>(s2, rcp_safe(x));
      pushBits<T>(s3, (T)sin(x));
      pushBits<T>(s4, (T)cos(x));
    }
    putLiftK(o, "rcp", "r" + p, bitsv(rcp(a)), s1, kindOf<T>());
    putLiftK(o, "rcp_safe", "r" + p, bitsv(rcp_safe(a)), s2, kindOf<T>());
    putLiftK(o, "sin", "r" + p, bitsv(sin(a)), s3, kindOf<T>());
    putLiftK(o, "cos", "r" + p, bitsv(cos(a)), s4, kindOf<T>());
  }
};
template <typename T, class V>
struct LiftFltUnary<T, V, false>
{
  static void run(const V &, const std::string &, Json &) {}
};
template <typename T, class V, bool OK = !(std::is_same<T, uint32_t>::value || std::is_same<T, uint64_t>::value)>
struct LiftAbs
{
  static void run(const V &a, const std::string &p, Json &o)
  {
    Json s = Json::array();
    for (int i = 0; i < (int)VX<V>::N; ++i) pushBits<T>(s, (T)abs(VX<V>::get(a, i)));
    putLiftK(o, "abs", "r" + p, bitsv(abs(a)), s, kindOf<T>());
  }
};
template <typename T, class V>
struct LiftAbs<T, V, false>
{
  static void run(const V &, const std::string &, Json &) {}
};
// operations on two vectors of the same type + unary operators + comparisons
template <typename T, class V>
static void liftSame(const V &a, const V &b, bool div, Json &o)
{
  const int N = VX<V>::N;
  const std::string p = pad1<V>(), p2 = pad2<V, V>();
  Json smin = Json::array(), smax = Json::array(), sneg = Json::array(), spos = Json::array(), sdru = Json::array();
  Json lt = Json::array(), eqs = Json::array(), nes = Json::array();
  for (int i = 0; i < N; ++i) {
    const T x = VX<V>::get(a, i), y = VX<V>::get(b, i);
    pushBits<T>(smin, (T)min(x, y));
    pushBits<T>(smax, (T)max(x, y));
    pushBits<T>(sneg, (T)(-x));
    pushBits<T>(spos, (T)(+x));
    if (div) pushBits<T>(sdru, divRoundUp(x, y));
    lt.push(Json(x < y));
    eqs.push(Json(x == y));
    nes.push(Json(x != y));
  }
  putLiftK(o, "min", "vv" + p2, bitsv(min(a, b)), smin, kindOf<T>());
  putLiftK(o, "max", "vv" + p2, bitsv(max(a, b)), smax, kindOf<T>());
  putLiftK(o, "neg", "r" + p, bitsv(-a), sneg, kindOf<T>());
  putLiftK(o, "pos", "r" + p, bitsv(+a), spos, kindOf<T>());
  if (div && std::is_integral<T>::value) putLiftK(o, "dru", "vv" + p2, bitsv(divRoundUp(a, b)), sdru, kindOf<T>());
  LiftAbs<T, V>::run(a, p, o);
  LiftFltUnary<T, V>::run(a, p, o);
  Json c = Json::object();
  c.set("eq", Json(a == b));
  c.set("ne", Json(a != b));
  c.set("anylt", Json(anyLessThan(a, b)));
  c.set("less", Json(std::less<V>()(a, b)));
  c.set("lt", lt);
  c.set("eqs", eqs);
  c.set("nes", nes);
  put(o, "_cmp", "vv" + p2, c);
}
// conversions of the element type (where the language defines the result for every value: integer sources, and floating-point
// sources converted to a floating-point type), long_product, and the vec4f colour helpers of vec.h
template <typename T, typename U, class V, bool OK = std::is_integral<T>::value || std::is_floating_point<U>::value>
struct LiftConv
{
  static void run(const V &a, Json &o)
  {
    typedef vec_t<U, VX<V>::N, VX<V>::P != 0> W;
    Json s = Json::array();
    for (int i = 0; i < (int)VX<V>::N; ++i) pushBits<U>(s, (U)VX<V>::get(a, i));
    putLiftK(o, "conv", std::string(TN<U>::name()) + ".ctor" + pad1<V>(), bitsv(W(a)), s, kindOf<U>());
    putLiftK(o, "conv", std::string(TN<U>::name()) + ".cast" + pad1<V>(), bitsv(static_cast<W>(a)), s, kindOf<U>());
  }
};
template <typename T, typename U, class V>
struct LiftConv<T, U, V, false>
{
  static void run(const V &, Json &) {}
};
template <typename T, class V, typename... Us>
struct LiftConvAll;
template <typename T, class V>
struct LiftConvAll<T, V>
{
  static void run(const V &, Json &) {}
};
template <typename T, class V, typename U, typename... Us>
struct LiftConvAll<T, V, U, Us...>
{
  static void run(const V &a, Json &o)
  {
    LiftConv<T, U, V>::run(a, o);
    LiftConvAll<T, V, Us...>::run(a, o);
  }
};
template <typename T, class V, bool INT = std::is_integral<T>::value>
struct LiftLongProduct
{
  static void run(const V &a, Json &o)
  {
    // scalar definition: the product of the components, each converted to size_t first
    size_t pr = 1;
    for (int i = 0; i < (int)VX<V>::N; ++i) pr *= size_t(VX<V>::get(a, i));
    Json v = Json::array(), s = Json::array();
    pushBits<uint64_t>(v, (uint64_t)a.long_product());
    pushBits<uint64_t>(s, (uint64_t)pr);
    putLiftK(o, "lprod", "r" + pad1<V>(), v, s, "i");
  }
};
template <typename T, class V>
struct LiftLongProduct<T, V, false>
{
  static void run(const V &, Json &) {}
};
template <class V>
struct LiftColour
{
  static void run(const V &, Json &) {}
};
template <>
struct LiftColour<vec_t<float, 4>>
{
  static void run(const vec_t<float, 4> &c, Json &o)
  {
    // linear_to_srgba: the scalar curve on x, y, z, alpha = max(w, 0); cvt_uint32: byte i of the packed value = cvt_uint32(component i)
    Json s = Json::array();
    pushBits<float>(s, linear_to_srgb(c.x));
    pushBits<float>(s, linear_to_srgb(c.y));
    pushBits<float>(s, linear_to_srgb(c.z));
    pushBits<float>(s, std::max(c.w, 0.f));
    putLiftK(o, "linear_to_srgba", "r", bitsv(linear_to_srgba(c)), s, "f");
    const uint32_t packed = cvt_uint32(c);
    Json v = Json::array(), sc = Json::array();
    for (int i = 0; i < 4; ++i) {
      v.push(Json((long long)((packed >> (8 * i)) & 0xffu)));
      sc.push(Json((long long)cvt_uint32(i == 0 ? c.x : i == 1 ? c.y : i == 2 ? c.z : c.w)));
    }
    putLiftK(o, "cvt_uint32", "r", v, sc, "i");
  }
};
template <typename T, class V, typename... Us>
static void liftExtra(const V &a, Json &o)
{
  LiftConvAll<T, V, float, double, Us...>::run(a, o);
  LiftLongProduct<T, V>::run(a, o);
  LiftColour<V>::run(a, o);
}
template <typename T, typename U, int N, bool A>
static void liftMixed(const Json &arg, bool div, Json &o)
{
  typedef vec_t<T, N, A> VT_;
  typedef vec_t<U, N, A> VU_;
  const bool ufl = std::is_floating_point<U>::value, tfl = std::is_floating_point<T>::value;
  // operands of the other element type: the general ones if both types are floating point, otherwise the small integers bi / si
  const char *kb = (ufl && tfl) ? "b" : "bi", *ks = (ufl && tfl) ? "s" : "si";
  const VT_ a = mkGI<VT_>(arg, "a");
  const VU_ b = mkGI<VU_>(arg, kb);
  const VT_ bt = mkGI<VT_>(arg, "b");
  const U c = gInI<U>(arg, ks);
  const std::string m = std::string(".mx_") + TN<U>::name() + pad1<VT_>();
  liftArith<VT_, VU_>(a, b, c, bt, m, m, true, div, o);
}
template <typename T, int N, bool A, typename... Us>
struct LiftMixedAll;
template <typename T, int N, bool A>
struct LiftMixedAll<T, N, A>
{
  static void run(const Json &, bool, Json &) {}
};
template <typename T, int N, bool A, typename U, typename... Us>
struct LiftMixedAll<T, N, A, U, Us...>
{
  static void run(const Json &arg, bool div, Json &o)
  {
    liftMixed<T, U, N, A>(arg, div, o);
    LiftMixedAll<T, N, A, Us...>::run(arg, div, o);
  }
};
template <typename T, class VA, class VB>
static void liftPair(const Json &arg, bool div, Json &o)
{
  const VA a = mkGI<VA>(arg, "a");
  const VB b = mkGI<VB>(arg, "b");
  const VA bt = mkGI<VA>(arg, "b");
  const T c = gInI<T>(arg, "s");
  liftArith<VA, VB>(a, b, c, bt, VX<VA>::P == VX<VB>::P ? pad1<VA>() : std::string(), pad2<VA, VB>(), true, div, o);
}
// how many component pairs of the case have an inexact product / quotient (an observation about the INPUT, for the
// vacuity guard: the law is only interesting where the scalar operator rounds)
template <typename T, class V, bool FLT = std::is_floating_point<T>::value>
struct Inexact
{
  static void run(const Json &arg, bool div, Json &o)
  {
    const V a = mkGI<V>(arg, "a"), b = mkGI<V>(arg, "b");
    const T c = gInI<T>(arg, "s");
    long long im = 0, id = 0, ids = 0;
    for (int i = 0; i < (int)VX<V>::N; ++i) {
      const T x = VX<V>::get(a, i), y = VX<V>::get(b, i);
      const T pr = x * y;
      if (std::isfinite((double)pr) && std::fma(x, y, -pr) != (T)0) ++im;
      if (div) {
        const T q = x / y, qs = x / c;
        if (std::isfinite((double)q) && std::fma(q, y, -x) != (T)0) ++id;
        if (std::isfinite((double)qs) && std::fma(qs, c, -x) != (T)0) ++ids;
      }
    }
    Json j = Json::object();
    j.set("mul", im);
    j.set("div", id);
    j.set("div_s", ids);
    o.set("_inexact", j);
  }
};
template <typename T, class V>
struct Inexact<T, V, false>
{
  static void run(const Json &arg, bool div, Json &o)
  {
    const V a = mkGI<V>(arg, "a"), b = mkGI<V>(arg, "b");
    long long id = 0;
    if (div)
      for (int i = 0; i < (int)VX<V>::N; ++i)
        if (VX<V>::get(a, i) % VX<V>::get(b, i) != 0) ++id;
    Json j = Json::object();
    j.set("mul", 0);
    j.set("div", id);
    j.set("div_s", id);
    o.set("_inexact", j);
  }
};

// ---- group "tol": results recorded as integers scaled by 2^18 (validated by VecTolValidate) --------------
static const double TOL_SCALE = 262144.0;
template <typename T>
inline Json scaled(T x, double scale)
{
  if (x != x) return Json("nan");
  const double s = (double)x * scale;
  if (std::fabs(s) > 1e9) return Json("huge");
  return Json((long long)std::llround(s));
}
template <class V>
inline Json scaledv(const V &v, double scale)
{
  Json j = Json::array();
  for (int i = 0; i < (int)VX<V>::N; ++i) j.push(scaled(VX<V>::get(v, i), scale));
  return j;
}
template <typename T, class V, bool OK = std::is_floating_point<T>::value>
struct TolOps
{
  static void run(const Json &arg, Json &o)
  {
    const std::string p = pad1<V>();
    const V a = VX<V>::make(arg["a"]);
    Json r = Json::object();
    r.set("rcp", scaledv(rcp(a), TOL_SCALE));
    r.set("rcp_safe", scaledv(rcp_safe(a), TOL_SCALE));
    r.set("normalize", scaledv(normalize(a), TOL_SCALE));
    r.set("safe_normalize", scaledv(safe_normalize(a), TOL_SCALE));
    r.set("length10", scaled(length(a), 1024.0));
    r.set("sin_v", scaledv(sin(a), TOL_SCALE));
    r.set("cos_v", scaledv(cos(a), TOL_SCALE));
    // the scalar functions applied to each component (the "scalar definition" of the statement)
    Json ss = Json::array(), cs = Json::array(), rs = Json::array(), rss = Json::array();
    for (int i = 0; i < (int)VX<V>::N; ++i) {
      const T x = VX<V>::get(a, i);
      ss.push(scaled<T>((T)sin(x), TOL_SCALE));
      cs.push(scaled<T>((T)cos(x), TOL_SCALE));
      rs.push(scaled<T>(rcp(x), TOL_SCALE));
      rss.push(scaled<T>(rcp_safe(x), TOL_SCALE));
    }
    r.set("sin_s", ss);
    r.set("cos_s", cs);
    r.set("rcp_s", rs);
    r.set("rcp_safe_s", rss);
    o.set(std::string("tol") + p, r);
  }
};
template <typename T, class V>
struct TolOps<T, V, false>
{
  static void run(const Json &, Json &) {}
};

// ---- recorded executions: a vector register driven by seeded random actions (validated by VecTrace) --------
struct IMachine
{
  virtual ~IMachine() {}
  virtual Json step(const std::string &a, const Json &arg) = 0;
};
template <typename T, class V>
struct Machine : IMachine
{
  V v;
  Machine() : v(VX<V>::make(vj::parse("[0,0,0,0]"))) {}
  Json state(Json o) const
  {
    o.set("v", outv(v));
    return o;
  }
  Json step(const std::string &a, const Json &arg) override
  {
    Json o = Json::object();
    if (a == "New") {
      v = VX<V>::comps(arg["v"]);
    } else if (a == "AddV") {
      v = V(v + VX<V>::make(arg["b"]));
    } else if (a == "SubV") {
      v = V(v - VX<V>::make(arg["b"]));
    } else if (a == "MulV") {
      v = V(v * VX<V>::make(arg["b"]));
    } else if (a == "DivV") {
      v = V(v / VX<V>::make(arg["b"]));
    } else if (a == "ModV") {
      modv(arg, std::is_integral<T>());
    } else if (a == "AddS") {
      v = V(v + sIn<T>(arg["s"]));
    } else if (a == "SubS") {
      v = V(v - sIn<T>(arg["s"]));
    } else if (a == "RSubS") {
      v = V(sIn<T>(arg["s"]) - v);
    } else if (a == "MulS") {
      v = V(sIn<T>(arg["s"]) * v);
    } else if (a == "CAddV") {
      v += VX<V>::make(arg["b"]);
    } else if (a == "CSubV") {
      v -= VX<V>::make(arg["b"]);
    } else if (a == "CMulS") {
      v *= sIn<T>(arg["s"]);
    } else if (a == "Neg") {
      v = -v;
    } else if (a == "Abs") {
      absv(std::integral_constant<bool, !(std::is_same<T, uint32_t>::value || std::is_same<T, uint64_t>::value)>());
    } else if (a == "MinV") {
      v = min(v, VX<V>::make(arg["b"]));
    } else if (a == "MaxV") {
      v = max(v, VX<V>::make(arg["b"]));
    } else if (a == "Clamp") {
      v = clamp(v, VX<V>::make(arg["lo"]), VX<V>::make(arg["hi"]));
    } else if (a == "CrossV") {
      crossv(arg, std::integral_constant<bool, VX<V>::N == 3>());
    } else if (a == "Madd") {
      v = MaddOp<V>::apply(v, VX<V>::make(arg["b"]), VX<V>::make(arg["c"]));
    } else if (a == "Interp") {
      v = interpolate_uv(VX<vec_t<T, 3>>::make(arg["f"]), v, VX<V>::make(arg["b"]), VX<V>::make(arg["c"]));
    } else if (a == "SetIdx") {
      v[(size_t)arg["i"].num()] = sIn<T>(arg["s"]);
    } else if (a == "Dot") {
      o.set("ret", sout<T>(dot(v, VX<V>::make(arg["b"]))));
    } else if (a == "Reduce") {
      Json r = Json::object();
      r.set("add", sout<T>(reduce_add(v)));
      r.set("min", sout<T>(reduce_min(v)));
      r.set("max", sout<T>(reduce_max(v)));
      o.set("ret", r);
    } else if (a == "Compare") {
      const V b = VX<V>::make(arg["b"]);
      Json r = Json::object();
      r.set("eq", Json(v == b));
      r.set("ne", Json(v != b));
      r.set("anylt", Json(anyLessThan(v, b)));
      r.set("less", Json(std::less<V>()(v, b)));
      o.set("ret", r);
    } else if (a == "Index") {
      o.set("ret", sout<T>(v[(size_t)arg["i"].num()]));
    } else {
      o.set("ret", "unknown action " + a);
    }
    return state(o);
  }
  void modv(const Json &arg, std::true_type) { v = V(v % VX<V>::make(arg["b"])); }
  void modv(const Json &, std::false_type) {}
  void absv(std::true_type) { v = abs(v); }
  void absv(std::false_type) {}
  void crossv(const Json &arg, std::true_type) { v = V(cross(v, VX<V>::make(arg["b"]))); }
  void crossv(const Json &, std::false_type) {}
};

// ---- one element type -------------------------------------------------------------------------------------
template <typename T, typename... Us>
struct TyOps : ITy
{
  typedef vec_t<T, 2> V2;
  typedef vec_t<T, 3> V3;
  typedef vec_t<T, 3, true> V3a;
  typedef vec_t<T, 4> V4;
  IMachine *m;
  TyOps() : m(nullptr) {}
  ~TyOps() override { delete m; }

  Json step(const std::string &a, const Json &arg) override
  {
    Json o = Json::object();
    if (a == "New") {
      delete m;
      m = nullptr;
      const std::string sh = arg["sh"].str();
      if (sh == "2") m = new Machine<T, V2>();
      else if (sh == "3") m = new Machine<T, V3>();
      else if (sh == "3a") m = new Machine<T, V3a>();
      else if (sh == "4") m = new Machine<T, V4>();
    }
    if (a == "Un" || a == "Zero" || a == "Tol") {
      const int n = (int)arg["a"].size();
      if (a == "Un") {
        if (n == 2) unOps<T, V2>(arg, o);
        else if (n == 3) { unOps<T, V3>(arg, o); unOps<T, V3a>(arg, o); }
        else unOps<T, V4>(arg, o);
      } else if (a == "Zero") {
        if (n == 2) zeroOps<T, V2>(arg, o);
        else if (n == 3) { zeroOps<T, V3>(arg, o); zeroOps<T, V3a>(arg, o); }
        else zeroOps<T, V4>(arg, o);
      } else {
        if (n == 2) TolOps<T, V2>::run(arg, o);
        else if (n == 3) { TolOps<T, V3>::run(arg, o); TolOps<T, V3a>::run(arg, o); }
        else TolOps<T, V4>::run(arg, o);
      }
      return o;
    }
    if (a == "Bin" || a == "Cmp") {
      const bool arith = a == "Bin";
      const int n = (int)arg["a"].size();
      Json rt = Json::object();
      if (n == 2) {
        binVV<T, V2, V2>(arg, o, arith);
        binSame<T, V2>(arg, o, arith);
        if (arith) MixedAll<T, 2, false, Us...>::run(arg, o, rt);
      } else if (n == 3) {
        binVV<T, V3, V3>(arg, o, arith);
        binVV<T, V3, V3a>(arg, o, arith);
        binVV<T, V3a, V3>(arg, o, arith);
        binVV<T, V3a, V3a>(arg, o, arith);
        binSame<T, V3>(arg, o, arith);
        binSame<T, V3a>(arg, o, arith);
        if (arith) {
          MixedAll<T, 3, false, Us...>::run(arg, o, rt);
          MixedAll<T, 3, true, Us...>::run(arg, o, rt);
        }
      } else {
        binVV<T, V4, V4>(arg, o, arith);
        binSame<T, V4>(arg, o, arith);
        if (arith) MixedAll<T, 4, false, Us...>::run(arg, o, rt);
      }
      if (arith) o.set("_rt", rt);
      return o;
    }
    if (a == "Tern") {
      const int n = (int)arg["a"].size();
      if (n == 2) ternOps<T, V2>(arg, o);
      else if (n == 3) { ternOps<T, V3>(arg, o); ternOps<T, V3a>(arg, o); }
      else ternOps<T, V4>(arg, o);
      return o;
    }
    if (a == "Lift") {
      // general operands; "div": the second operand has no zero component (division, remainder, divRoundUp are recorded)
      const int n = (int)arg["a"].size();
      const bool div = arg["div"].boolean();
      if (n == 2) {
        liftPair<T, V2, V2>(arg, div, o);
        liftSame<T, V2>(mkGI<V2>(arg, "a"), mkGI<V2>(arg, "b"), div, o);
        liftExtra<T, V2, Us...>(mkGI<V2>(arg, "a"), o);
        LiftMixedAll<T, 2, false, Us...>::run(arg, div, o);
        Inexact<T, V2>::run(arg, div, o);
      } else if (n == 3) {
        liftPair<T, V3, V3>(arg, div, o);
        liftPair<T, V3, V3a>(arg, div, o);
        liftPair<T, V3a, V3>(arg, div, o);
        liftPair<T, V3a, V3a>(arg, div, o);
        liftSame<T, V3>(mkGI<V3>(arg, "a"), mkGI<V3>(arg, "b"), div, o);
        liftExtra<T, V3, Us...>(mkGI<V3>(arg, "a"), o);
        liftSame<T, V3a>(mkGI<V3a>(arg, "a"), mkGI<V3a>(arg, "b"), div, o);
        liftExtra<T, V3a, Us...>(mkGI<V3a>(arg, "a"), o);
        LiftMixedAll<T, 3, false, Us...>::run(arg, div, o);
        LiftMixedAll<T, 3, true, Us...>::run(arg, div, o);
        Inexact<T, V3>::run(arg, div, o);
      } else {
        liftPair<T, V4, V4>(arg, div, o);
        liftSame<T, V4>(mkGI<V4>(arg, "a"), mkGI<V4>(arg, "b"), div, o);
        liftExtra<T, V4, Us...>(mkGI<V4>(arg, "a"), o);
        LiftMixedAll<T, 4, false, Us...>::run(arg, div, o);
        Inexact<T, V4>::run(arg, div, o);
      }
      return o;
    }
    if (a == "Alias") {
      const int n = (int)arg["a"].size();
      if (n == 2) aliasOps<T, V2>(arg, o);
      else if (n == 3) { aliasOps<T, V3>(arg, o); aliasOps<T, V3a>(arg, o); }
      else aliasOps<T, V4>(arg, o);
      return o;
    }
    if (a == "Mca") {
      const std::string u = arg["u"].str();
      if (u == "f") mcaShapes<T, float>(arg, o);
      else if (u == "d") mcaShapes<T, double>(arg, o);
      else if (u == "i") mcaShapes<T, int32_t>(arg, o);
      else if (u == "l") mcaShapes<T, int64_t>(arg, o);
      return o;
    }
    if (a == "Conv") {
      convShapes<T>((int)arg["a"].size(), arg, o);
      return o;
    }
    if (m) return m->step(a, arg);
    o.set("ret", "n/a");
    return o;
  }
};

ITy *make_uc();
ITy *make_c();
ITy *make_us();
ITy *make_s();
ITy *make_ui();
ITy *make_i();
ITy *make_ul();
ITy *make_l();
ITy *make_f();
ITy *make_d();

}  // namespace vd
