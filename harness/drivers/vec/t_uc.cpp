// element type uint8_t of vec.h; partner element types of the mixed-type overloads: uint16_t, int32_t, float
#include "vecdrv.h"
namespace vd {
ITy *make_uc() { return new TyOps<uint8_t, uint16_t, int32_t, float>(); }
}  // namespace vd
