// element type uint64_t of vec.h; partner element types of the mixed-type overloads: int64_t, int32_t
#include "vecdrv.h"
namespace vd {
ITy *make_ul() { return new TyOps<uint64_t, int64_t, int32_t>(); }
}  // namespace vd
