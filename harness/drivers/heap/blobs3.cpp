// vector worlds of the element types of C14_BLOB_TYPES_3 (see worlds.h)
#include "worlds.h"

IWorld *makeBlobWorld3(const std::string &variant)
{
#define X(NAME, N, A) if (variant == #NAME) return new VecWorld<Blob<N, A>>();
  C14_BLOB_TYPES_3(X)
#undef X
  return nullptr;
}
