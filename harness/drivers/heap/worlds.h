#pragma once
// Conformance driver for spec/memory/Heap.tla and spec/containers/AlignedVec.tla
// (property C14).  Two worlds, selected by the "world" key of the input line:
//
//  "heap": interprets Alloc / Free / Check / CheckAll / LeakCheck / Churn on the
//          REAL rkcommon::memory::alignedMalloc / alignedFree.  Blocks are kept in
//          numbered slots; after every successful allocation the full extent of
//          the block is filled with a pattern derived from a per-allocation tag,
//          Check counts the bytes that differ from it.  Every call is reported
//          with the pointer it returned / was given, as 4 limbs of base 2^16
//          (most significant first; TLC integers are 32-bit).
//  "vec" : interprets the actions of AlignedVec.tla on two real
//          rkcommon::containers::AlignedVector<T> (T chosen by "variant":
//          c1 = char, i4 = int, f8 = double, s12 = 12-byte struct, s64 = 64-byte struct,
//          nest = self-recursive node type, vany = std::vector<rkcommon::utility::Any>,
//          trk = lifetime-instrumented type, and every Blob<size, alignof> of C14_BLOB_TYPES: sizes around and above
//          the 64-byte alignment, not powers of two, over-aligned) and on aligned_allocator<T>::allocate directly,
//          also rebound (std::allocator_traits<...>::rebind_alloc<U>) to the other types of that list.
//
// The driver decides nothing: it reports pointers, byte counts, contents.
#include <algorithm>
#include <climits>
#include <cmath>
#include <condition_variable>
#include <functional>
#include <mutex>
#include <thread>
#include <cstdint>
#include <cstring>
#include <initializer_list>
#include <memory>
#include <new>
#include <set>
#include <stdexcept>
#include <string>
#include <vector>
#include "driver.h"
#include "rkcommon/containers/AlignedVector.h"
#include "rkcommon/containers/aligned_allocator.h"
#include "rkcommon/memory/malloc.h"
#include "rkcommon/utility/Any.h"

#if defined(__SANITIZE_ADDRESS__)
#include <sanitizer/lsan_interface.h>
#define HAVE_LSAN 1
#else
#define HAVE_LSAN 0
#endif

using vj::Json;
namespace mem = rkcommon::memory;
using rkcommon::containers::aligned_allocator;
using rkcommon::containers::AlignedVector;

// ---------------------------------------------------------------------------
// 64-bit numbers <-> limbs
// ---------------------------------------------------------------------------
static Json toLimbs(uint64_t v)
{
  Json a = Json::array();
  for (int k = 3; k >= 0; --k)
    a.push((long long)((v >> (16 * k)) & 0xFFFFu));
  return a;
}
static uint64_t fromLimbs(const Json &a)
{
  uint64_t v = 0;
  for (size_t k = 0; k < a.size(); ++k)
    v = (v << 16) | (uint64_t)(a[k].num() & 0xFFFF);
  return v;
}

struct IWorld
{
  virtual ~IWorld() {}
  virtual Json step(const Json &act) = 0;
};

// ---------------------------------------------------------------------------
// heap world
// ---------------------------------------------------------------------------
template <int N>
struct Elem
{
  unsigned char b[N];
};

// Element sizes of the heap world's allocator routes (typed alignedMalloc<T>, aligned_allocator<T>::allocate,
// rebind_alloc<T>::allocate).  Adding a size is one line here (and one entry of ES_LIST in c14.py).
#define C14_HEAP_SIZES(X) \
  X(1) X(3) X(4) X(12) X(64) \
  X(63) X(65) X(72) X(96) X(127) X(129) X(160) X(200)

// Element types of the vector world beyond the hand-written ones: X(variant name, sizeof, alignof).  They are also the
// types `rebind_to` rebinds an allocator to.  Adding a type is one line here (and one entry of BLOBS in c14.py).
// (four lists = four translation units blobs<k>.cpp compiled in parallel; a new type goes to any of them)
#define C14_BLOB_TYPES_1(X) X(e63, 63, 1) X(e65, 65, 1) X(e72, 72, 8)
#define C14_BLOB_TYPES_2(X) X(e96, 96, 32) X(e127, 127, 1) X(e128, 128, 8)
#define C14_BLOB_TYPES_3(X) X(e129, 129, 1) X(e160, 160, 32)
#define C14_BLOB_TYPES_4(X) X(e200, 200, 8) X(a128, 128, 128)
#define C14_BLOB_TYPES(X) C14_BLOB_TYPES_1(X) C14_BLOB_TYPES_2(X) C14_BLOB_TYPES_3(X) C14_BLOB_TYPES_4(X)
// the types an allocator is rebound to by "rebind_to" (= RebindTypes of AlignedVec.tla): X(name, sizeof, alignof)
#define C14_REBIND_TYPES(X) X(r1, 1, 1) X(r24, 24, 8) X(r72, 72, 8) X(r96, 96, 32) X(r200, 200, 8) X(r128, 128, 128)

static const uint64_t SAMPLED_ABOVE = (uint64_t)1 << 28; // larger blocks are touched at both ends only
static const uint64_t EDGE          = 4096;

static inline unsigned char patternByte(uint64_t tag, uint64_t i)
{
  return (unsigned char)(tag * 167u + i * 13u + (i >> 8) * 7u + (i >> 16) * 3u + 1u);
}

struct HeapWorld : IWorld
{
  struct Slot
  {
    bool used;
    unsigned char *p;
    uint64_t size;
    uint64_t tag;
    int viaAlloc; // element size if the block came from aligned_allocator<Elem<es>>::allocate, else 0
    bool rebound; // ... through std::allocator_traits<aligned_allocator<Elem<4>>>::rebind_alloc<Elem<es>>
  };

  // calls may be made on the driver's thread (t = 0), on one worker thread that lives as long as the world
  // (t = 1) or on a thread created for this one call (t = 2); always one call at a time
  struct Worker
  {
    std::thread th;
    std::mutex m;
    std::condition_variable cv;
    std::function<void()> job;
    bool hasJob, done, quit;
    Worker() : hasJob(false), done(false), quit(false) {}
    void loop()
    {
      std::unique_lock<std::mutex> l(m);
      for (;;) {
        cv.wait(l, [&] { return hasJob || quit; });
        if (quit)
          return;
        job();
        hasJob = false;
        done   = true;
        cv.notify_all();
      }
    }
    void run(const std::function<void()> &f)
    {
      if (!th.joinable())
        th = std::thread([this] { loop(); });
      std::unique_lock<std::mutex> l(m);
      job    = f;
      hasJob = true;
      done   = false;
      cv.notify_all();
      cv.wait(l, [&] { return done; });
    }
    ~Worker()
    {
      if (th.joinable()) {
        {
          std::unique_lock<std::mutex> l(m);
          quit = true;
          cv.notify_all();
        }
        th.join();
      }
    }
  };
  Worker worker;
  void runOn(int t, const std::function<void()> &f)
  {
    if (t == 1)
      worker.run(f);
    else if (t == 2) {
      std::thread th(f);
      th.join();
    } else
      f();
  }
  std::vector<Slot> slots; // index = handle (1-based)
  uint64_t tagCounter;

  HeapWorld() : tagCounter(0)
  {
    Slot e = {false, nullptr, 0, 0, 0, false};
    slots.assign(65, e);
  }
  ~HeapWorld() override
  {
    for (size_t h = 0; h < slots.size(); ++h)
      if (slots[h].used)
        release(slots[h]);
  }

  // the allocator for Elem<N>: the plain one, or the one a container holding an aligned_allocator<Elem<4>> derives
  // for its nodes of type Elem<N> (rebind<U>::other + converting constructor)
  template <int N>
  struct Routes
  {
    typedef aligned_allocator<Elem<N>> Plain;
    typedef typename std::allocator_traits<aligned_allocator<Elem<4>>>::template rebind_alloc<Elem<N>> Rebound;
  };
  template <typename AL>
  static void *allocateFrom(const AL &al, uint64_t n, std::string &thrown)
  {
    try {
      return al.allocate((size_t)n);
    } catch (const std::length_error &) {
      thrown = "length_error";
    } catch (const std::bad_alloc &) {
      thrown = "bad_alloc";
    } catch (...) {
      thrown = "other";
    }
    return nullptr;
  }
  template <int N>
  static void *viaAllocator(uint64_t size, bool rebound, std::string &thrown)
  {
    if (rebound) {
      aligned_allocator<Elem<4>> src;
      typename Routes<N>::Rebound al(src);
      return allocateFrom(al, size / N, thrown);
    }
    typename Routes<N>::Plain al;
    return allocateFrom(al, size / N, thrown);
  }
  template <int N>
  static void releaseTo(const Slot &s)
  {
    if (s.rebound) {
      aligned_allocator<Elem<4>> src;
      typename Routes<N>::Rebound al(src);
      al.deallocate((Elem<N> *)s.p, (size_t)(s.size / N));
    } else {
      typename Routes<N>::Plain().deallocate((Elem<N> *)s.p, (size_t)(s.size / N));
    }
  }
  static bool knownSize(int es)
  {
#define X(N) if (es == N) return true;
    C14_HEAP_SIZES(X)
#undef X
    return false;
  }
  static void *callAllocator(uint64_t size, int es, bool rebound, std::string &thrown)
  {
#define X(N) if (es == N) return viaAllocator<N>(size, rebound, thrown);
    C14_HEAP_SIZES(X)
#undef X
    thrown = "driver: unknown element size";
    return nullptr;
  }
  static void release(const Slot &s)
  {
    if (s.viaAlloc == 0) {
      mem::alignedFree(s.p);
      return;
    }
#define X(N) if (s.viaAlloc == N) { releaseTo<N>(s); return; }
    C14_HEAP_SIZES(X)
#undef X
  }

  // visit every byte offset the client owns and uses (all of them, or both edges of a huge block)
  template <typename F>
  static void forOffsets(uint64_t size, F f)
  {
    if (size <= SAMPLED_ABOVE) {
      for (uint64_t i = 0; i < size; ++i)
        f(i);
    } else {
      for (uint64_t i = 0; i < EDGE; ++i)
        f(i);
      for (uint64_t i = size - EDGE; i < size; ++i)
        f(i);
    }
  }
  static void fill(unsigned char *p, uint64_t size, uint64_t tag)
  {
    volatile unsigned char *q = p;
    forOffsets(size, [&](uint64_t i) { q[i] = patternByte(tag, i); });
  }
  static long long countBad(const unsigned char *p, uint64_t size, uint64_t tag)
  {
    long long bad = 0;
    const volatile unsigned char *q = p;
    forOffsets(size, [&](uint64_t i) {
      if (q[i] != patternByte(tag, i))
        ++bad;
    });
    return bad;
  }

  static void *callAlloc(uint64_t size, size_t align, int es)
  {
    // es selects the typed overload alignedMalloc<T>(nElements, align) when size is a multiple of sizeof(T)
#define X(N) if (N != 1 && es == N && size % N == 0) return mem::alignedMalloc<Elem<N>>((size_t)(size / N), align);
    C14_HEAP_SIZES(X)
#undef X
    return mem::alignedMalloc((size_t)size, align);
  }

  static long rssKb()
  {
    FILE *f = fopen("/proc/self/statm", "r");
    if (!f)
      return -1;
    long total = 0, res = 0;
    int n = fscanf(f, "%ld %ld", &total, &res);
    fclose(f);
    if (n != 2)
      return -1;
    return res * (long)(sysconf(_SC_PAGESIZE) / 1024);
  }

  static bool leakDetectorOn()
  {
#if HAVE_LSAN
    const char *o = getenv("ASAN_OPTIONS");
    return o && strstr(o, "detect_leaks=1");
#else
    return false;
#endif
  }

  Json step(const Json &act) override
  {
    const std::string &a = act["a"].str();
    const Json &arg     = act["arg"];
    Json o              = Json::object();
    if (a == "Alloc") {
      size_t h = (size_t)arg["h"].num();
      if (h >= slots.size() || slots[h].used) {
        o.set("skipped", true);
        return o;
      }
      uint64_t size = fromLimbs(arg["size"]);
      size_t align  = (size_t)arg["align"].num();
      int es        = arg.has("es") ? (int)arg["es"].num() : 0;
      bool rebound  = arg.has("via") && arg["via"].str() == "rebind";
      bool via      = arg.has("via") && (rebound || arg["via"].str() == "alloc") && knownSize(es) && size % (uint64_t)es == 0;
      int t         = arg.has("t") ? (int)arg["t"].num() : 0;
      void *p       = nullptr;
      std::string thrown;
      runOn(t, [&] { p = via ? callAllocator(size, es, rebound, thrown) : callAlloc(size, align, es); });
      o.set("skipped", false);
      o.set("p", toLimbs((uint64_t)(uintptr_t)p));
      o.set("thrown", thrown);
      o.set("route", via ? (rebound ? "rebind" : "alloc") : "malloc");
      if (p) {
        Slot s = {true, (unsigned char *)p, size, ++tagCounter, via ? es : 0, via && rebound};
        fill(s.p, s.size, s.tag);
        slots[h] = s;
      }
    } else if (a == "Free") {
      size_t h = (size_t)arg["h"].num();
      if (h >= slots.size() || !slots[h].used) {
        o.set("skipped", true);
        return o;
      }
      o.set("skipped", false);
      o.set("p", toLimbs((uint64_t)(uintptr_t)slots[h].p));
      {
        int t        = arg.has("t") ? (int)arg["t"].num() : 0;
        const Slot c = slots[h];
        runOn(t, [&] { release(c); });
      }
      slots[h].used = false;
      slots[h].p    = nullptr;
    } else if (a == "Check") {
      size_t h = (size_t)arg["h"].num();
      if (h >= slots.size() || !slots[h].used) {
        o.set("skipped", true);
        return o;
      }
      o.set("skipped", false);
      o.set("bad", countBad(slots[h].p, slots[h].size, slots[h].tag));
    } else if (a == "CheckAll") {
      Json bl = Json::array();
      for (size_t h = 1; h < slots.size(); ++h)
        if (slots[h].used) {
          Json pr = Json::array();
          pr.push((long long)h);
          pr.push(countBad(slots[h].p, slots[h].size, slots[h].tag));
          bl.push(pr);
        }
      o.set("blocks", bl);
    } else if (a == "Burst") {
      // n requests in a row, all held at once, each filled with its own pattern, all checked, all freed
      size_t n      = (size_t)arg["n"].num();
      uint64_t size = fromLimbs(arg["size"]);
      size_t align  = (size_t)arg["align"].num();
      int t         = arg.has("t") ? (int)arg["t"].num() : 0;
      std::vector<std::pair<uintptr_t, uint64_t>> got; // address, tag
      long long nulls = 0, bad = 0;
      runOn(t, [&] {
        for (size_t k = 0; k < n; ++k) {
          void *p = mem::alignedMalloc((size_t)size, align);
          if (!p) {
            ++nulls;
            continue;
          }
          uint64_t tag = ++tagCounter;
          fill((unsigned char *)p, size, tag);
          got.push_back(std::make_pair((uintptr_t)p, tag));
        }
      });
      for (size_t k = 0; k < got.size(); ++k)
        bad += countBad((const unsigned char *)got[k].first, size, got[k].second);
      runOn(t, [&] {
        for (size_t k = 0; k < got.size(); ++k)
          mem::alignedFree((void *)got[k].first);
      });
      std::sort(got.begin(), got.end());
      Json ps = Json::array();
      for (size_t k = 0; k < got.size(); ++k)
        ps.push(toLimbs((uint64_t)got[k].first));
      o.set("ps", ps);
      o.set("nulls", nulls);
      o.set("bad", bad);
    } else if (a == "LeakCheck") {
      long long leaked = -1;
#if HAVE_LSAN
      if (leakDetectorOn())
        leaked = __lsan_do_recoverable_leak_check() ? 1 : 0;
#endif
      o.set("leaked", leaked);
    } else if (a == "Churn") {
      uint64_t size = (uint64_t)arg["size_kb"].num() * 1024u;
      long cycles   = (long)arg["cycles"].num();
      long nonnull  = 0;
      long r0       = rssKb();
      for (long c = 0; c < cycles; ++c) {
        volatile unsigned char *p = (volatile unsigned char *)mem::alignedMalloc((size_t)size, 64);
        if (!p)
          continue;
        ++nonnull;
        for (uint64_t i = 0; i < size; i += 1024)
          p[i] = (unsigned char)(c + i);
        if (size)
          p[size - 1] = 1;
        mem::alignedFree((void *)p);
      }
      long r1 = rssKb();
      o.set("nonnull", (long long)nonnull);
      o.set("retained_kb", (long long)((r0 < 0 || r1 < r0) ? 0 : r1 - r0));
    } else {
      o.set("unknown_action", a);
    }
    return o;
  }
};

// ---------------------------------------------------------------------------
// vector world
// ---------------------------------------------------------------------------
struct S12
{
  int a, b, c;
  bool operator==(const S12 &o) const { return a == o.a && b == o.b && c == o.c; }
};
struct S64
{
  int w[16];
  bool operator==(const S64 &o) const { return memcmp(w, o.w, sizeof w) == 0; }
};
struct B3 // narrower than a word, not a power of two: SIZE_MAX is a multiple of 3, so max_size() * sizeof(T) = SIZE_MAX exactly
{
  unsigned char b[3];
  bool operator==(const B3 &o) const { return memcmp(b, o.b, 3) == 0; }
};
struct alignas(32) A32 // over-aligned (> 16) element
{
  int w[8];
  bool operator==(const A32 &o) const { return memcmp(w, o.w, sizeof w) == 0; }
};
static_assert(sizeof(B3) == 3, "B3 must be 3 bytes");
static_assert(sizeof(A32) == 32 && alignof(A32) == 32, "A32 must be 32 bytes, 32-aligned");
static_assert(sizeof(S12) == 12, "S12 must be 12 bytes");
static_assert(sizeof(S64) == 64, "S64 must be 64 bytes");

// element types given by their size and alignment only: Blob<N, A> has sizeof = N, alignof = A (N a multiple of A)
template <int N, int A>
struct alignas(A) Blob
{
  unsigned char b[N];
  bool operator==(const Blob &o) const { return memcmp(b, o.b, N) == 0; }
};
#define X(NAME, N, A) static_assert(sizeof(Blob<N, A>) == N && alignof(Blob<N, A>) == A, "Blob<" #N ", " #A ">: size / alignment");
C14_BLOB_TYPES(X)
C14_REBIND_TYPES(X)
#undef X

// a self-recursive value type (like a JSON / variant node): it can be built from a list of itself, so
// "T{t}" and "T(t)" are different things for it.  Abstract value: (v, number of kids); a copy must have no kids.
struct Nest
{
  int v;
  std::vector<Nest> kids;
  Nest() : v(0) {}
  Nest(int x) : v(x) {}
  Nest(const Nest &) = default;
  Nest &operator=(const Nest &) = default;
  Nest(std::initializer_list<Nest> l) : v(-1), kids(l) {}
  bool operator==(const Nest &o) const { return v == o.v && kids == o.kids; }
};

// a std type with an initializer_list constructor whose list element is constructible from the type itself
typedef std::vector<rkcommon::utility::Any> VAny;

// lifetime-instrumented element: every object registers its address; construction on a live address,
// destruction / reading of a dead one and the kind of constructor used are counted.
struct Tracked
{
  struct Counters
  {
    long ctorOnLive, dtorOnDead, useOfDead, intCtor, listCtor, defCtor, copies, moves, assigns;
  };
  static Counters &c()
  {
    static Counters k = {0, 0, 0, 0, 0, 0, 0, 0, 0};
    return k;
  }
  static std::set<const void *> &live()
  {
    static std::set<const void *> s;
    return s;
  }
  // the fuse: when armed with k > 0 the k-th copy / move construction from now on throws (and disarms)
  static long &fuse()
  {
    static long f = 0;
    return f;
  }
  struct Blown : std::runtime_error
  {
    Blown() : std::runtime_error("copy fuse blown") {}
  };
  static void burn()
  {
    if (fuse() > 0 && --fuse() == 0)
      throw Blown();
  }
  int value;
  void reg()
  {
    if (!live().insert(this).second)
      ++c().ctorOnLive;
  }
  int read() const
  {
    if (!live().count(this))
      ++c().useOfDead;
    return value;
  }
  Tracked() : value(0)
  {
    reg();
    ++c().defCtor;
  }
  explicit Tracked(int x) : value(x)
  {
    reg();
    ++c().intCtor;
  }
  Tracked(const Tracked &o) : value(o.read())
  {
    burn(); // before the object exists: a throwing copy constructs nothing
    reg();
    ++c().copies;
  }
  Tracked(Tracked &&o) : value(o.read())
  {
    burn();
    reg();
    ++c().moves;
  }
  Tracked(std::initializer_list<Tracked> l) : value(-500 - (int)l.size())
  {
    reg();
    ++c().listCtor;
  }
  Tracked &operator=(const Tracked &o)
  {
    if (!live().count(this))
      ++c().useOfDead;
    value = o.read();
    ++c().assigns;
    return *this;
  }
  ~Tracked()
  {
    if (!live().erase(this))
      ++c().dtorOnDead;
    value = -777;
  }
  bool operator==(const Tracked &o) const { return value == o.value; }
};

// model value <-> element.  0 <-> the value-initialised element T(); an element whose redundant parts
// disagree (or that is not what a copy of a client value can be) decodes to a value <= -1000.
template <typename T>
struct Enc;
// model values 0..9 stand for the values of the element type that generic code tends to mishandle
template <>
struct Enc<char>
{
  // NUL, a letter, control characters, the ends of the signed range, bytes >= 0x80
  static const unsigned char *tab()
  {
    static const unsigned char t[10] = {0x00, 0x01, 'A', '\n', 0x20, 0x7E, 0x7F, 0xFF, 0x80, 0xC3};
    return t;
  }
  static char to(long long x) { return (char)tab()[x]; }
  static long long from(const char &c)
  {
    for (int k = 0; k < 10; ++k)
      if ((unsigned char)c == tab()[k])
        return k;
    return -1000 - (long long)(unsigned char)c;
  }
};
template <>
struct Enc<int>
{
  static int to(long long x) { return x == 6 ? INT_MAX : x == 7 ? -1 : x == 8 ? INT_MIN : (int)x; }
  static long long from(const int &c) { return c == INT_MAX ? 6 : c == -1 ? 7 : c == INT_MIN ? 8 : (long long)c; }
};
template <>
struct Enc<double>
{
  // compared by bit pattern: 9 = -0.0 (equal to T() under ==), 8 = a NaN with payload, 7 = the smallest subnormal,
  // 6 = the most negative finite value, 5 = 0.1 (not dyadic)
  static uint64_t bits(long long x)
  {
    switch (x) {
    case 9: return 0x8000000000000000ull;
    case 8: return 0x7ff8000000000abcull;
    case 7: return 0x0000000000000001ull;
    case 6: return 0xffefffffffffffffull;
    case 5: return 0x3fb999999999999aull;
    default: {
      double d = (double)x;
      uint64_t b;
      memcpy(&b, &d, 8);
      return b;
    }
    }
  }
  static double to(long long x)
  {
    uint64_t b = bits(x);
    double d;
    memcpy(&d, &b, 8);
    return d;
  }
  static long long from(const double &d)
  {
    uint64_t b;
    memcpy(&b, &d, 8);
    for (long long k = 0; k < 10; ++k)
      if (bits(k) == b)
        return k;
    return -1000;
  }
};
template <>
struct Enc<B3>
{
  static B3 to(long long x)
  {
    B3 s = {{(unsigned char)x, (unsigned char)(x * 3), (unsigned char)(x * 5)}};
    return s;
  }
  static long long from(const B3 &s) { return (s.b[1] == (unsigned char)(s.b[0] * 3) && s.b[2] == (unsigned char)(s.b[0] * 5)) ? s.b[0] : -1000 - s.b[0]; }
};
template <>
struct Enc<A32>
{
  static A32 to(long long x)
  {
    A32 s;
    for (int k = 0; k < 8; ++k)
      s.w[k] = (int)x * (k + 1);
    return s;
  }
  static long long from(const A32 &s)
  {
    if ((uintptr_t)&s % 32 != 0)
      return -2000; // the element itself is not where its type must be
    for (int k = 0; k < 8; ++k)
      if (s.w[k] != s.w[0] * (k + 1))
        return -1000 - s.w[0];
    return s.w[0];
  }
};
template <int N, int A>
struct Enc<Blob<N, A>>
{
  // every byte depends on the value and on its position; 0 <-> all bytes zero = Blob()
  static unsigned char byteOf(long long x, int i) { return (unsigned char)(x * (1 + i * 7 + (i >> 5))); }
  static Blob<N, A> to(long long x)
  {
    Blob<N, A> s;
    for (int i = 0; i < N; ++i)
      s.b[i] = byteOf(x, i);
    return s;
  }
  static long long from(const Blob<N, A> &s)
  {
    for (int i = 0; i < N; ++i)
      if (s.b[i] != byteOf(s.b[0], i))
        return -1000 - s.b[0];
    return s.b[0];
  }
};
template <>
struct Enc<S12>
{
  static S12 to(long long x)
  {
    S12 s = {(int)x, (int)x * 31, (int)x * 17};
    return s;
  }
  static long long from(const S12 &s) { return (s.b == s.a * 31 && s.c == s.a * 17) ? s.a : -1000 - s.a; }
};
template <>
struct Enc<S64>
{
  static S64 to(long long x)
  {
    S64 s;
    for (int k = 0; k < 16; ++k)
      s.w[k] = (int)x * (k + 1);
    return s;
  }
  static long long from(const S64 &s)
  {
    for (int k = 0; k < 16; ++k)
      if (s.w[k] != s.w[0] * (k + 1))
        return -1000 - s.w[0];
    return s.w[0];
  }
};
template <>
struct Enc<Nest>
{
  static Nest to(long long x) { return Nest((int)x); }
  static long long from(const Nest &n) { return n.kids.empty() ? n.v : -1000 - (long long)n.kids.size(); }
};
template <>
struct Enc<VAny>
{
  static VAny to(long long x)
  {
    VAny v;
    if (x != 0)
      v.push_back(rkcommon::utility::Any((int)x));
    return v;
  }
  static long long from(const VAny &v)
  {
    if (v.empty())
      return 0;
    if (v.size() == 1 && v[0].is<int>())
      return v[0].get<int>();
    return -1000 - (long long)v.size();
  }
};
template <>
struct Enc<Tracked>
{
  static Tracked to(long long x) { return Tracked((int)x); }
  static long long from(const Tracked &t) { return t.read(); }
};

template <typename T>
struct Life
{
  static void begin() {}
  static void report(Json &) {}
  static void arm(long) {}
  static void disarm() {}
};
template <>
struct Life<Tracked>
{
  static long &convAtBegin()
  {
    static long v = 0;
    return v;
  }
  static void begin() { convAtBegin() = Tracked::c().intCtor + Tracked::c().listCtor; }
  static void arm(long k) { Tracked::fuse() = k; }
  static void disarm() { Tracked::fuse() = 0; }
  static void report(Json &o)
  {
    Json l = Json::object();
    l.set("live", (long long)Tracked::live().size());
    l.set("ctor_on_live", (long long)Tracked::c().ctorOnLive);
    l.set("dtor_on_dead", (long long)Tracked::c().dtorOnDead);
    l.set("use_of_dead", (long long)Tracked::c().useOfDead);
    l.set("conv_ctor", (long long)(Tracked::c().intCtor + Tracked::c().listCtor - convAtBegin()));
    o.set("life", l);
    o.set("copies", (long long)Tracked::c().copies);
    o.set("moves", (long long)Tracked::c().moves);
  }
};

template <typename T>
struct VecWorld : IWorld
{
  AlignedVector<T> v[2];
  // a container call threw something no plan provides for (bad_alloc ...): the vectors are no longer what the later steps
  // of the history were written for (v[0] of an empty vector ...), so those are reported as not performed
  bool diverged;

  VecWorld() : diverged(false)
  {
    Tracked::Counters z = {0, 0, 0, 0, 0, 0, 0, 0, 0};
    Tracked::c()        = z; // (objects of an earlier world are gone: its vectors were destroyed)
  }

  Json items(int i) const
  {
    Json a = Json::array();
    for (size_t k = 0; k < v[i].size(); ++k)
      a.push(Enc<T>::from(v[i][k]));
    return a;
  }

  // the container call itself; every client value is built before Life<T>::begin() and dies before the report
  void perform(const std::string &a, const Json &arg, Json &o)
  {
    int i               = arg.has("i") ? (int)arg["i"].num() - 1 : 0;
    AlignedVector<T> &t = v[i];
    AlignedVector<T> &u = v[1 - i];
    T val               = Enc<T>::to(arg.has("x") ? arg["x"].num() : 0);
    Life<T>::begin();
    o.set("ret", "void");
    if (diverged) {
      o.set("ret", "not performed: an earlier call threw");
      return;
    }
    if (arg.has("fuse"))
      Life<T>::arm((long)arg["fuse"].num());
    try {
      performCall(a, arg, o, t, u, val);
    } catch (const Tracked::Blown &) {
      o.set("ret", "threw");
    } catch (const std::bad_alloc &) {
      o.set("ret", "bad_alloc");
      diverged = true;
    } catch (const std::exception &e) {
      o.set("ret", std::string("exception: ") + e.what());
      diverged = true;
    }
    Life<T>::disarm();
  }

  template <typename AL>
  static typename AL::value_type *allocateHow(AL &al, const std::string &how, size_t n)
  {
    if (how == "hint")
      return al.allocate(n, (const int *)nullptr);
    return al.allocate(n);
  }

  // one request to the allocator `al` (for elements of type AL::value_type), written symbolically in arg {rel, d};
  // reports the outcome, the address mod 64, what was asked for and the type (under `key`)
  template <typename AL>
  static void allocateWith(AL &al, const std::string &how, const Json &arg, Json &o, const char *key)
  {
    typedef typename AL::value_type U;
    const std::string &rel = arg["rel"].str();
    long long d            = arg["d"].num();
    size_t n;
    if (rel == "abs")
      n = (size_t)d;
    else if (rel == "max")
      n = al.max_size() + (size_t)d; // size_t arithmetic (d may be negative)
    else
      n = (~(size_t)0) / sizeof(U) + (size_t)d;
    o.set("n", toLimbs((uint64_t)n));
    long long bytes = 0;
    bool lenErr     = false;
    try {
      U *p = allocateHow(al, how, n);
      if (!p) {
        o.set("ret", "null");
      } else {
        o.set("ret", "ok");
        o.set("amod64", (long long)((uintptr_t)p % 64));
        // use what was handed out: all of it when small, both ends when huge
        volatile unsigned char *q = (volatile unsigned char *)p;
        if (n > (~(size_t)0) / sizeof(U)) {
          // the byte count is not representable: there is no "full extent" to touch
        } else if (n <= ((size_t)1 << 24) / sizeof(U)) {
          for (size_t k = 0; k < n * sizeof(U); ++k) {
            q[k] = (unsigned char)k;
            ++bytes;
          }
        } else {
          q[0] = 1;
          q[(n - 1) * sizeof(U) + sizeof(U) - 1] = 1; // address of the last byte of element n-1
        }
        al.deallocate(p, n);
      }
    } catch (const std::length_error &) {
      lenErr = true;
      o.set("ret", "length_error");
    } catch (const std::bad_alloc &) {
      o.set("ret", "bad_alloc");
    } catch (const std::exception &e) {
      o.set("ret", std::string("other:") + e.what());
    }
    o.set("len_err", lenErr);
    Json ty = Json::object();
    ty.set("size", (long long)sizeof(U));
    ty.set("align", (long long)alignof(U));
    ty.set("max_size", toLimbs((uint64_t)al.max_size()));
    ty.set("n", toLimbs((uint64_t)n));
    ty.set("bytes", bytes);
    o.set(key, ty);
  }

  void performCall(const std::string &a, const Json &arg, Json &o, AlignedVector<T> &t, AlignedVector<T> &u, T &val)
  {
    if (a == "PushBack") {
      t.push_back(val);
    } else if (a == "PushBackRv") {
      t.push_back(std::move(val));
    } else if (a == "PushBackOwn") {
      t.push_back(t[0]);
    } else if (a == "PopBack") {
      t.pop_back();
    } else if (a == "Resize") {
      t.resize((size_t)arg["n"].num());
    } else if (a == "ResizeVal") {
      t.resize((size_t)arg["n"].num(), val);
    } else if (a == "Reserve") {
      t.reserve((size_t)arg["n"].num());
    } else if (a == "ShrinkToFit") {
      t.shrink_to_fit();
    } else if (a == "Assign") {
      t.assign((size_t)arg["n"].num(), val);
    } else if (a == "AssignFrom") {
      t = u;
    } else if (a == "CopyCtor") {
      AlignedVector<T> tmp(u);
      t.swap(tmp);
    } else if (a == "MoveAssign") {
      t = std::move(u);
      u.clear(); // a moved-from vector is valid but unspecified: clear() gives it a specified value again
    } else if (a == "SelfAssign") {
      AlignedVector<T> &alias = t;
      t                       = alias;
    } else if (a == "InsertOwn") {
      t.insert(t.begin(), t.back());
    } else if (a == "ResizeValOwn") {
      t.resize((size_t)arg["n"].num(), t[0]);
    } else if (a == "Swap") {
      v[0].swap(v[1]);
    } else if (a == "Clear") {
      t.clear();
    } else if (a == "Insert") {
      t.insert(t.begin() + (ptrdiff_t)arg["pos"].num(), val);
    } else if (a == "InsertMid") {
      t.insert(t.begin() + (ptrdiff_t)(t.size() / 2), val);
    } else if (a == "Allocate") {
      // how = "plain": aligned_allocator<T>; "hint": its allocate(n, hint) overload; "rebind": the allocator a
      // node-based container derives from another one (rebind<T>::other, converting constructor); "traits": the
      // allocator type std::vector<T, aligned_allocator<T>> itself allocates through; "rebind_to": rebound from
      // aligned_allocator<T> to ANOTHER type U = Blob<to.size, to.align>
      const std::string how = arg.has("how") ? arg["how"].str() : "plain";
      aligned_allocator<T> plainAl;
      if (how == "rebind_to") {
        long long sz = arg["to"]["size"].num(), algn = arg["to"]["align"].num();
        bool found = false;
#define X(NAME, N, A) \
  if (!found && sz == N && algn == A) { \
    found = true; \
    typename std::allocator_traits<aligned_allocator<T>>::template rebind_alloc<Blob<N, A>> ral(plainAl); \
    allocateWith(ral, how, arg, o, "rty"); \
  }
        C14_REBIND_TYPES(X)
#undef X
        if (!found)
          o.set("ret", "driver: no such type");
      } else if (how == "rebind") {
        aligned_allocator<long> srcAl;
        typename aligned_allocator<long>::template rebind<T>::other rebAl(srcAl);
        allocateWith(rebAl, how, arg, o, "ty");
      } else if (how == "traits") {
        typename std::allocator_traits<aligned_allocator<T>>::template rebind_alloc<T> trAl(plainAl);
        allocateWith(trAl, how, arg, o, "ty");
      } else {
        allocateWith(plainAl, how, arg, o, "ty");
      }
    } else {
      o.set("ret", "unknown action " + a);
    }
  }

  Json step(const Json &act) override
  {
    Json o             = Json::object();
    const T *before[2] = {v[0].data(), v[1].data()};
    perform(act["a"].str(), act["arg"], o);
    Json it = Json::array(), sz = Json::array(), md = Json::array(), cp = Json::array(), mv = Json::array();
    for (int k = 0; k < 2; ++k) {
      it.push(items(k));
      sz.push((long long)v[k].size());
      md.push((long long)((uintptr_t)v[k].data() % 64));
      cp.push((long long)v[k].capacity());
      mv.push(v[k].data() != before[k]);
    }
    o.set("items", it);
    o.set("sizes", sz);
    o.set("mod64", md);
    o.set("cap", cp);
    o.set("moved", mv);
    Life<T>::report(o);
    return o;
  }
};

// the vector worlds of the size / alignment-only element types, one factory per translation unit (null: not one of its types)
IWorld *makeBlobWorld1(const std::string &variant);
IWorld *makeBlobWorld2(const std::string &variant);
IWorld *makeBlobWorld3(const std::string &variant);
IWorld *makeBlobWorld4(const std::string &variant);
