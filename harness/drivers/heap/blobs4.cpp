// vector worlds of the element types of C14_BLOB_TYPES_4 (see worlds.h)
#include "worlds.h"

IWorld *makeBlobWorld4(const std::string &variant)
{
#define X(NAME, N, A) if (variant == #NAME) return new VecWorld<Blob<N, A>>();
  C14_BLOB_TYPES_4(X)
#undef X
  return nullptr;
}
