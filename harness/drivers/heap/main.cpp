// Conformance driver for property C14: the worlds are in worlds.h, the vector worlds of the Blob<size, alignof>
// element types in blobs<k>.cpp
#include "worlds.h"

struct World
{
  IWorld *w;
  World(const Json &hist)
  {
    const std::string world = hist["world"].str();
    const std::string v     = hist["variant"].str();
    if (world == "heap")
      w = new HeapWorld();
    else if (v == "c1")
      w = new VecWorld<char>();
    else if (v == "s12")
      w = new VecWorld<S12>();
    else if (v == "s64")
      w = new VecWorld<S64>();
    else if (v == "f8")
      w = new VecWorld<double>();
    else if (v == "b3")
      w = new VecWorld<B3>();
    else if (v == "a32")
      w = new VecWorld<A32>();
    else if (v == "nest")
      w = new VecWorld<Nest>();
    else if (v == "vany")
      w = new VecWorld<VAny>();
    else if (v == "trk")
      w = new VecWorld<Tracked>();
    else if ((w = makeBlobWorld1(v)) || (w = makeBlobWorld2(v)) || (w = makeBlobWorld3(v)) || (w = makeBlobWorld4(v))) {
    }
    else
      w = new VecWorld<int>();
  }
  ~World() { delete w; }
  Json step(const Json &act) { return w->step(act); }
};

int main(int argc, char **argv)
{
  return vdrv::run<World>(argc, argv);
}
