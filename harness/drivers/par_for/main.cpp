// Recorder for the parallel-loop contract (property C01, spec/tasking/ParallelFor.tla).
//
// Runs scenarios (TLC-generated: api, index type, n, block size, nesting, body cost,
// pipe pre-fill) on the REAL parallel_for / parallel_foreach / parallel_in_blocks_of of
// the tasking backend this binary was built with and records what a caller can observe:
//   Call / Return by the calling thread, ExecBegin / ExecEnd by whichever thread runs the
// user function, all stamped by one atomic counter, plus the number of plain memory cells
// the caller reads back as written after the call returned.  Consecutive indices executed
// back to back by one thread are merged into one run (lossless for the contract).
// TLC validates the events against ParallelForTrace.  A body invocation for a count <= 0
// or for an index outside [0,n) ends the process after writing an "Abort" line (the loop
// might otherwise never end); the orchestrator restarts the driver for the remaining scenarios.
//
//   drv_par_for --in scenarios.ndjson --out events.ndjson --threads T
#include <algorithm>
#include <atomic>
#include <chrono>
#include <fstream>
#include <iostream>
#include <mutex>
#include <thread>
#include <vector>
#include <unistd.h>
#include <sched.h>
#include "json.h"
#include "rkcommon/tasking/parallel_for.h"
#include "rkcommon/tasking/parallel_foreach.h"
#include "rkcommon/tasking/schedule.h"
#include "rkcommon/tasking/tasking_system_init.h"
#ifdef RKCOMMON_TASKING_TBB
#include <tbb/task.h>
#include <tbb/task_group.h>
#endif
#include <stdexcept>

#include "rkcommon/verif_hooks.h"

using vj::Json;
using namespace rkcommon::tasking;

// schedule perturbation through the guarded hook points of the Internal backend's scheduler
// (--perturb SEED): seeded random delays between "execute", "decrement running count", "pipe write",
// "wait loop" ... so that windows a few instructions wide are held open.  The verdict stays TLC's.
static std::atomic<unsigned> g_prng{0};
static std::atomic<long> g_pointCalls{0};
static void perturbPoint(const char *, const void *)
{
  g_pointCalls++;
  unsigned x = g_prng.load();
  x ^= x << 13; x ^= x >> 17; x ^= x << 5;
  g_prng.store(x);
  unsigned k = x % 16;
  if (k < 8) return;
  if (k < 12) { std::this_thread::yield(); return; }
  if (k < 15) { for (volatile unsigned i = 0; i < x % 3000; ++i) {} return; }
  std::this_thread::sleep_for(std::chrono::microseconds(30 + x % 150));
}

struct Ev
{
  long s;
  int tid;
  char k;   // 'C'all 'R'eturn 'B'egin 'E'nd
  int c;
  long b, e;
  long x0, x1, x2, x3;   // Call: n, B, blocks, -  ; Return: cells ; parent in p*
  int pc;
  long pb, pe;
};

static std::atomic<long> g_stamp{0};
static std::atomic<int> g_nextCall{1};
static std::mutex g_regM;
static std::vector<std::vector<Ev> *> g_bufs;
static std::atomic<int> g_nextTid{0};
static thread_local std::vector<Ev> *tl_buf = nullptr;
static thread_local int tl_tid = -1;
static std::ofstream g_out;
static Json g_curId;
static std::atomic<bool> g_aborting{false};

static std::vector<Ev> &buf()
{
  if (!tl_buf) {
    tl_buf = new std::vector<Ev>();
    tl_tid = g_nextTid++;
    std::unique_lock<std::mutex> lk(g_regM);
    g_bufs.push_back(tl_buf);
  }
  return *tl_buf;
}

static void logEv(char k, int c, long b, long e, long x0 = 0, long x1 = 0, long x2 = 0, int pc = 0, long pb = 0, long pe = 0)
{
  std::vector<Ev> &v = buf();
  Ev ev;
  ev.s = g_stamp++;
  ev.tid = tl_tid;
  ev.k = k; ev.c = c; ev.b = b; ev.e = e; ev.x0 = x0; ev.x1 = x1; ev.x2 = x2; ev.x3 = 0;
  ev.pc = pc; ev.pb = pb; ev.pe = pe;
  v.push_back(ev);
}

static Json evJson(const Ev &e)
{
  Json j = Json::object();
  if (e.k == 'C') {
    j.set("ev", "Call").set("c", e.c).set("n", (long long)e.x0).set("B", (long long)e.x1).set("blocks", e.x2 != 0);
    Json p = Json::array();
    if (e.pc) { p.push(e.pc); p.push((long long)e.pb); p.push((long long)e.pe); }
    j.set("parent", p);
  } else if (e.k == 'R') {
    j.set("ev", "Return").set("c", e.c).set("cells", (long long)e.x0);
  } else {
    j.set("ev", e.k == 'B' ? "ExecBegin" : "ExecEnd").set("c", e.c).set("b", (long long)e.b).set("e", (long long)e.e);
  }
  return j;
}

// gather all thread buffers, merge per-thread back-to-back single-index invocations of leaf calls into runs
static Json collect(const std::vector<int> &leafCalls)
{
  std::vector<Ev> all;
  {
    std::unique_lock<std::mutex> lk(g_regM);
    for (auto *b : g_bufs) {
      std::vector<Ev> &v = *b;
      // merge inside this thread's own log: B(c,i) E(c,i) B(c,i+1) E(c,i+1) ... -> B(c,i..j) E(c,i..j)
      std::vector<Ev> m;
      for (size_t k = 0; k < v.size(); ++k) {
        const Ev &x = v[k];
        bool leaf = std::find(leafCalls.begin(), leafCalls.end(), x.c) != leafCalls.end();
        if (leaf && x.k == 'B' && m.size() >= 2) {
          Ev &pe = m[m.size() - 1];
          Ev &pb = m[m.size() - 2];
          if (pe.k == 'E' && pb.k == 'B' && pe.c == x.c && pb.c == x.c && pe.e == x.b && pb.e == pe.e && pb.b == pe.b &&
              k + 1 < v.size() && v[k + 1].k == 'E' && v[k + 1].c == x.c && v[k + 1].b == x.b && v[k + 1].e == x.e) {
            // extend the previous run by this invocation
            pb.e = x.e;
            pe.e = x.e;
            pe.s = v[k + 1].s;
            ++k;
            continue;
          }
        }
        m.push_back(x);
      }
      all.insert(all.end(), m.begin(), m.end());
      v.clear();
    }
  }
  // a merged run keeps the stamp of its first begin and of its last end; fix b of the end event
  std::sort(all.begin(), all.end(), [](const Ev &a, const Ev &b) { return a.s < b.s; });
  Json evs = Json::array();
  for (auto &e : all) evs.push(evJson(e));
  return evs;
}

static void writeResult(const Json &id, const Json &evs, const char *abortWhy)
{
  Json r = Json::object();
  r.set("id", id);
  Json e2 = evs;
  if (abortWhy) {
    Json a = Json::object();
    a.set("ev", "Abort").set("why", abortWhy);
    e2.push(a);
  }
  r.set("events", e2);
  g_out << r.dump() << "\n";
  g_out.flush();
}

static void abortRun(const char *why)
{
  bool expected = false;
  if (!g_aborting.compare_exchange_strong(expected, true)) {
    for (;;) pause();
  }
  std::vector<int> none;
  Json evs = collect(none);
  writeResult(g_curId, evs, why);
  _exit(0);
}

static void spinUs(long us)
{
  auto t0 = std::chrono::steady_clock::now();
  while (std::chrono::duration_cast<std::chrono::microseconds>(std::chrono::steady_clock::now() - t0).count() < us) {}
}

struct Scenario
{
  std::string api, type, nestApi, cost;
  long n, B, nestN, nestB;
  bool nested;
};

struct CallCtx
{
  int c;
  long n;
  std::vector<int> *cells;   // plain, non-atomic memory
};

template <typename IDX> static long runCall(const Scenario &sc, const std::string &api, long n, long B, int pc, long pb, long pe, bool allowNest, std::vector<int> &leaf);

template <typename IDX>
static void bodyIndex(const Scenario &sc, CallCtx &cx, long i, bool allowNest, std::vector<int> &leaf)
{
  logEv('B', cx.c, i, i + 1);
  if (cx.n <= 0) abortRun("body invoked for a count <= 0");
  if (i < 0 || i >= cx.n) abortRun("body invoked for an index outside [0,n)");
  (*cx.cells)[(size_t)i] += 1;
  if (sc.cost == "skew") { if (i == 0) spinUs(300); else if (i % 7 == 3) spinUs(20); }
  else if (sc.cost == "uniform") spinUs(2);
  if (allowNest && sc.nested) runCall<int>(sc, sc.nestApi, sc.nestN, sc.nestB, cx.c, i, i + 1, false, leaf);
  logEv('E', cx.c, i, i + 1);
}

template <typename IDX, int BS>
static void runBlocks(const Scenario &sc, CallCtx &cx, long n, bool allowNest, std::vector<int> &leaf)
{
  parallel_in_blocks_of<BS>((IDX)n, [&](IDX b, IDX e) {
    logEv('B', cx.c, (long)b, (long)e);
    if (cx.n <= 0) abortRun("block body invoked for a count <= 0");
    if ((long)b < 0 || (long)e > cx.n || (long)b >= (long)e) abortRun("block outside [0,n) or empty");
    for (long i = (long)b; i < (long)e; ++i) (*cx.cells)[(size_t)i] += 1;
    if (sc.cost == "skew" && b == 0) spinUs(300);
    if (allowNest && sc.nested) runCall<int>(sc, sc.nestApi, sc.nestN, sc.nestB, cx.c, (long)b, (long)e, false, leaf);
    logEv('E', cx.c, (long)b, (long)e);
  });
}

template <typename IDX>
static long runCall(const Scenario &sc, const std::string &api, long n, long B, int pc, long pb, long pe, bool allowNest, std::vector<int> &leaf)
{
  CallCtx cx;
  cx.c = g_nextCall++;
  cx.n = n;
  std::vector<int> cells((size_t)(n > 0 ? n : 0), 0);
  cx.cells = &cells;
  const bool blocks = api == "blocks";
  if (!blocks && !(allowNest && sc.nested)) {
    static std::mutex lm;
    std::unique_lock<std::mutex> lk(lm);
    leaf.push_back(cx.c);
  }
  logEv('C', cx.c, 0, 0, n, blocks ? B : 1, blocks ? 1 : 0, pc, pb, pe);
  if (api == "for") {
    parallel_for((IDX)n, [&](IDX i) { bodyIndex<IDX>(sc, cx, (long)i, allowNest, leaf); });
  } else if (api == "foreach") {
    std::vector<int> v((size_t)(n > 0 ? n : 0), 7);
    int *base = v.data();
    parallel_foreach(v, [&](int &x) { bodyIndex<IDX>(sc, cx, (long)(&x - base), allowNest, leaf); });
  } else if (api == "foreach_it") {
    std::vector<int> v((size_t)(n > 0 ? n : 0), 7);
    int *base = v.data();
    parallel_foreach(v.begin(), v.end(), [&](int &x) { bodyIndex<IDX>(sc, cx, (long)(&x - base), allowNest, leaf); });
  } else if (blocks) {
    if (B == 1) runBlocks<IDX, 1>(sc, cx, n, allowNest, leaf);
    else if (B == 3) runBlocks<IDX, 3>(sc, cx, n, allowNest, leaf);
    else runBlocks<IDX, 16>(sc, cx, n, allowNest, leaf);
  }
  // what the caller can read back right after the call returned
  long written = 0;
  for (size_t i = 0; i < cells.size(); ++i) written += cells[i] == 1 ? 1 : 0;
  logEv('R', cx.c, 0, 0, written);
  return written;
}

// parallel_in_blocks_of does not compile for index types narrower than int (std::min deduction), so blocks use >= int types
template <typename IDX>
static void runTyped(const Scenario &sc, std::vector<int> &leaf)
{
  runCall<IDX>(sc, sc.api, sc.n, sc.B, 0, 0, 0, true, leaf);
}
template <typename IDX>
static void runTypedNoBlocks(const Scenario &sc, std::vector<int> &leaf)
{
  // narrow index types: parallel_for only
  CallCtx cx;
  cx.c = g_nextCall++;
  cx.n = sc.n;
  std::vector<int> cells((size_t)(sc.n > 0 ? sc.n : 0), 0);
  cx.cells = &cells;
  leaf.push_back(cx.c);
  logEv('C', cx.c, 0, 0, sc.n, 1, 0, 0, 0, 0);
  parallel_for((IDX)sc.n, [&](IDX i) { bodyIndex<IDX>(sc, cx, (long)i, false, leaf); });
  long written = 0;
  for (size_t i = 0; i < cells.size(); ++i) written += cells[i] == 1 ? 1 : 0;
  logEv('R', cx.c, 0, 0, written);
}


// ---------------------------------------------------------------------------------------------------------------
// Macro scenarios (spec/tasking/ParallelForHuge.tla): counts around 2^31 / 2^32, far too many to record per index.
// The loop body increments a one-byte counter per index (plain memory, saturating at 255; each index is written by
// exactly one body in correct code) in a byte array of G + N + G bytes (guard bytes before and after the range; an
// index that would even fall outside the guards is counted instead of written).  After the call returned, the calling
// thread has the array scanned (plain std::threads) and reports the SUMMARY of the loop: how many indices of [0,N)
// were visited exactly once / never / more than once, how many cells outside the range were touched, the smallest and
// the largest visited index, the number of block invocations larger than the block size and of empty ones.  All
// counts are written as two limbs <<hi, lo>> = hi * 65536 + lo (TLC integers are 32-bit).  No verdict here: the
// summary is judged by TLC (ParallelForHugeValidate).
#include <sys/mman.h>
#include <cstdint>
#include <cstring>

struct HugeCtx
{
  uint8_t *buf;
  uint64_t total, G, N, B;
  std::atomic<uint64_t> farOut, oversize, empty;
};

static inline void hugeTouch(HugeCtx &h, uint64_t idx)   // idx: the index as a 64-bit two's complement value
{
  const uint64_t off = idx + h.G;
  if (off < h.total) { uint8_t &c = h.buf[off]; if (c != 255) ++c; }
  else h.farOut++;
}

struct ByteView   // a container of N one-byte elements inside the guarded array
{
  uint8_t *b, *e;
  uint8_t *begin() const { return b; }
  uint8_t *end() const { return e; }
};

template <typename IDX, int BS>
static void hugeBlocks(HugeCtx &h)
{
  parallel_in_blocks_of<BS>((IDX)h.N, [&](IDX b, IDX e) {
    if (!(b < e)) { h.empty++; return; }
    uint64_t len = (uint64_t)(long long)e - (uint64_t)(long long)b;
    if (len > h.B) { h.oversize++; if (len > 2 * h.B + 64) len = 2 * h.B + 64; }
    const uint64_t b0 = (uint64_t)(long long)b;
    for (uint64_t k = 0; k < len; ++k) hugeTouch(h, b0 + k);
  });
}

template <typename IDX>
static bool hugeCall(HugeCtx &h, const std::string &api)
{
  uint8_t *base = h.buf + h.G;
  if (api == "none") {
    // control: no loop at all (the scan must then report N indices as never visited)
  } else if (api == "for") {
    parallel_for((IDX)h.N, [&](IDX i) { hugeTouch(h, (uint64_t)(long long)i); });
  } else if (api == "foreach_it") {
    parallel_foreach(base, base + h.N, [&](uint8_t &x) { hugeTouch(h, (uint64_t)((uintptr_t)&x - (uintptr_t)base)); });
  } else if (api == "foreach") {
    ByteView v; v.b = base; v.e = base + h.N;
    parallel_foreach(v, [&](uint8_t &x) { hugeTouch(h, (uint64_t)((uintptr_t)&x - (uintptr_t)base)); });
  } else if (api == "blocks") {
    if (h.B == 1) hugeBlocks<IDX, 1>(h);
    else if (h.B == 3) hugeBlocks<IDX, 3>(h);
    else if (h.B == 65536) hugeBlocks<IDX, 65536>(h);
    else return false;
  } else return false;
  return true;
}

static Json limbs(uint64_t v)
{
  Json a = Json::array();
  a.push((long long)(v >> 16)); a.push((long long)(v & 0xffffu));
  return a;
}

struct HugeScan { uint64_t once, never, multi, outside, mn, mx; bool any; };

static void hugeScanPart(const HugeCtx &h, uint64_t lo, uint64_t hi, HugeScan &r)
{
  r.once = r.never = r.multi = r.outside = 0; r.any = false; r.mn = r.mx = 0;
  const uint64_t rb = h.G, re = h.G + h.N;
  uint64_t off = lo;
  while (off < hi) {
    // fast path: eight cells of the range at once that are all 1 or all 0
    if (off >= rb && off + 8 <= re && off + 8 <= hi) {
      uint64_t w; memcpy(&w, h.buf + off, 8);
      if (w == 0x0101010101010101ull) { if (!r.any) { r.any = true; r.mn = off - rb; } r.mx = off - rb + 7; r.once += 8; off += 8; continue; }
      if (w == 0) { r.never += 8; off += 8; continue; }
    }
    const uint8_t c = h.buf[off];
    if (off >= rb && off < re) {
      if (c == 1) r.once++; else if (c == 0) r.never++; else r.multi++;
      if (c) { if (!r.any) { r.any = true; r.mn = off - rb; } r.mx = off - rb; }
    } else if (c) r.outside++;
    ++off;
  }
}

static uint8_t *g_hugeBuf = nullptr;
static uint64_t g_hugeCap = 0;

static void runHuge(const Json &j, int scanThreads)
{
  HugeCtx h;
  h.N = ((uint64_t)j["N"][0].num() << 16) + (uint64_t)j["N"][1].num();
  h.G = (uint64_t)j["G"].num();
  h.B = (uint64_t)j["B"].num();
  h.total = h.N + 2 * h.G;
  h.farOut = 0; h.oversize = 0; h.empty = 0;
  Json r = Json::object();
  r.set("id", j["id"]);
  r.set("events", Json::array());
  Json hs = Json::object();
  if (g_hugeCap < h.total) {
    if (g_hugeBuf) munmap(g_hugeBuf, g_hugeCap);
    g_hugeBuf = nullptr; g_hugeCap = 0;
    void *p = mmap(nullptr, h.total, PROT_READ | PROT_WRITE, MAP_PRIVATE | MAP_ANONYMOUS | MAP_NORESERVE, -1, 0);
    if (p != MAP_FAILED) { g_hugeBuf = (uint8_t *)p; g_hugeCap = h.total; }
  }
  if (!g_hugeBuf) {
    hs.set("allocated", false);
    r.set("huge", hs);
    g_out << r.dump() << "\n"; g_out.flush();
    return;
  }
  h.buf = g_hugeBuf;
  const int T = scanThreads < 1 ? 1 : scanThreads;
  const uint64_t chunk = ((h.total + T - 1) / T + 63) & ~(uint64_t)63;
  {
    std::vector<std::thread> th;
    for (int t = 0; t < T; ++t)
      th.emplace_back([&, t] { uint64_t lo = std::min(h.total, chunk * t), hi = std::min(h.total, chunk * (t + 1)); if (hi > lo) memset(h.buf + lo, 0, hi - lo); });
    for (auto &x : th) x.join();
  }
  const std::string api = j["api"].str(), t = j["type"].str();
  auto t0 = std::chrono::steady_clock::now();
  bool ran;
  if (t == "i32") ran = hugeCall<int>(h, api);
  else if (t == "u32") ran = hugeCall<unsigned>(h, api);
  else if (t == "i64") ran = hugeCall<long>(h, api);
  else if (t == "ll") ran = hugeCall<long long>(h, api);
  else if (t == "ull") ran = hugeCall<unsigned long long>(h, api);
  else if (t == "sz") ran = hugeCall<size_t>(h, api);
  else ran = false;
  auto t1 = std::chrono::steady_clock::now();
  std::vector<HugeScan> parts(T);
  {
    std::vector<std::thread> th;
    for (int k = 0; k < T; ++k)
      th.emplace_back([&, k] { uint64_t lo = std::min(h.total, chunk * k), hi = std::min(h.total, chunk * (k + 1)); hugeScanPart(h, lo, hi, parts[k]); });
    for (auto &x : th) x.join();
  }
  auto t2 = std::chrono::steady_clock::now();
  HugeScan s; s.once = s.never = s.multi = s.outside = 0; s.any = false; s.mn = s.mx = 0;
  for (int k = 0; k < T; ++k) {
    s.once += parts[k].once; s.never += parts[k].never; s.multi += parts[k].multi; s.outside += parts[k].outside;
    if (parts[k].any) { if (!s.any) { s.any = true; s.mn = parts[k].mn; } s.mx = parts[k].mx; }
  }
  hs.set("allocated", true).set("ran", ran).set("bytes", limbs(h.total)).set("cells_scanned", limbs(s.once + s.never + s.multi));
  hs.set("once", limbs(s.once)).set("never", limbs(s.never)).set("multi", limbs(s.multi)).set("outside", limbs(s.outside + h.farOut.load()));
  if (s.any) { hs.set("min", limbs(s.mn)); hs.set("max", limbs(s.mx)); }
  else { Json none = Json::array(); none.push(-1); none.push(0); hs.set("min", none); hs.set("max", none); }   // None of the spec: no index
  hs.set("oversize", limbs(h.oversize.load())).set("empty", limbs(h.empty.load()));
  hs.set("loop_ms", (long long)std::chrono::duration_cast<std::chrono::milliseconds>(t1 - t0).count());
  hs.set("scan_ms", (long long)std::chrono::duration_cast<std::chrono::milliseconds>(t2 - t1).count());
  r.set("huge", hs);
  g_out << r.dump() << "\n"; g_out.flush();
}

static void freeHuge()
{
  if (g_hugeBuf) munmap(g_hugeBuf, g_hugeCap);
  g_hugeBuf = nullptr; g_hugeCap = 0;
}

int main(int argc, char **argv)
{
  std::string in, out;
  int threads = 4;
  for (int i = 1; i < argc; ++i) {
    std::string a = argv[i];
    if (a == "--in" && i + 1 < argc) in = argv[++i];
    else if (a == "--out" && i + 1 < argc) out = argv[++i];
    else if (a == "--threads" && i + 1 < argc) threads = atoi(argv[++i]);
    else if (a == "--perturb" && i + 1 < argc) { g_prng = (unsigned)atol(argv[++i]) * 2654435761u + 12345u; }
  }
  if (in.empty() || out.empty()) { fprintf(stderr, "usage: --in scenarios.ndjson --out events.ndjson --threads T\n"); return 2; }
#ifdef RKCOMMON_VERIF
  if (g_prng.load()) rkcommon::verif::setPointFcn(perturbPoint);
#endif
  initTaskingSystem(threads);
  std::ifstream f(in);
  g_out.open(out, std::ios::app);
  std::string line;
  while (std::getline(f, line)) {
    if (line.empty()) continue;
    Json j = vj::parse(line);
    if (j.has("mode") && j["mode"].str() == "huge") { runHuge(j, 16); continue; }
    freeHuge();
    Scenario sc;
    sc.api = j["api"].str();
    sc.type = j["type"].str();
    sc.n = j["n"].num();
    sc.B = j["B"].num();
    sc.cost = j["cost"].str();
    sc.nested = j["nest"]["api"].str() != "none";
    sc.nestApi = sc.nested ? j["nest"]["api"].str() : "";
    sc.nestN = sc.nested ? j["nest"]["n"].num() : 0;
    sc.nestB = sc.nested ? j["nest"]["B"].num() : 1;
    g_curId = j["id"];
    g_nextCall = 1;
    std::vector<int> leaf;

    // optional: fill the calling thread's task pipe first (Internal backend: pipe-full branch of the scheduler)
    static std::atomic<int> blockers{0}, prefillDone{0};   // static: queued tasks may outlive a scenario
    static std::atomic<long> releasedGen{0};
    static long gen = 0;
    blockers = 0; prefillDone = 0;
    ++gen;
    const long myGen = gen;
    long prefill = j.has("prefill") ? j["prefill"].num() : 0;
    if (prefill > 0) {
      // the blockers keep the WORKER threads from draining the pipe; with a single thread there is no worker, and a
      // blocker picked up by the caller itself while it waits for its loop would wait for the caller for ever
      int nb = threads - 1;
      for (int k = 0; k < nb; ++k)
        schedule([myGen] { blockers++; while (releasedGen.load() < myGen) std::this_thread::yield(); });
      auto t0 = std::chrono::steady_clock::now();
      while (blockers.load() < nb && std::chrono::duration_cast<std::chrono::milliseconds>(std::chrono::steady_clock::now() - t0).count() < 300)
        std::this_thread::yield();
      for (long k = 0; k < prefill; ++k) schedule([] { prefillDone++; });
    }

    // optional history: an earlier, unrelated loop whose body threw (the caller catches) or cancelled its group
    const std::string pre = j.has("pre") ? j["pre"].str() : "none";
    if (pre == "throw") {
      try {
        parallel_for(300, [](int i) { if (i == 137) throw std::runtime_error("item 137 is malformed"); });
      } catch (const std::exception &) {
      }
    } else if (pre == "cancel") {
#ifdef RKCOMMON_TASKING_TBB
      parallel_for(300, [](int i) { if (i == 137) tbb::task::current_context()->cancel_group_execution(); });
#endif
    }

    const std::string &t = sc.type;
    long rounds = j.has("rounds") ? j["rounds"].num() : 0;
    if (rounds > 0) {
      // Stress mode: the same small loop many times, with the process confined to few CPUs so that the operating
      // system preempts scheduler threads at arbitrary instructions (oversubscription).  Recording every round would
      // swamp TLC, so a round is recorded in full only if it is one of the first three or if what the caller reads
      // back right after the call is not "every cell written exactly once" - the recorded rounds are then validated
      // by TLC like any other execution (the driver only selects what is recorded; it decides nothing).
      if (j.has("cpus")) {
        cpu_set_t set; CPU_ZERO(&set);
        long ncpu = j["cpus"].num();
        for (long c = 0; c < ncpu; ++c) CPU_SET((int)c, &set);
        sched_setaffinity(0, sizeof(set), &set);
      }
      Json kept = Json::array();
      long suspicious = 0, done = 0;
      for (long r = 0; r < rounds && suspicious < 3; ++r, ++done) {
        g_nextCall = 1;
        std::vector<int> lf;
        long written = runCall<int>(sc, sc.api, sc.n, sc.B, 0, 0, 0, false, lf);
        bool susp = written != (sc.n > 0 ? sc.n : 0);
        Json evs = collect(lf);
        if (r < 3 || susp) {
          if (kept.size()) { Json rs = Json::object(); rs.set("ev", "Reset"); kept.push(rs); }
          for (size_t q = 0; q < evs.size(); ++q) kept.push(evs[q]);
        }
        if (susp) {
          ++suspicious;
          // write what we have right away: a late invocation working on a finished call may well crash the process
          Json pr = Json::object();
          pr.set("id", j["id"]);
          pr.set("events", kept);
          pr.set("rounds_run", (long long)done + 1);
          pr.set("rounds_recorded_suspicious", (long long)suspicious);
          g_out << pr.dump() << "\n";
          g_out.flush();
          // a late body invocation may still be running against the finished call: give it time before the next round
          std::this_thread::sleep_for(std::chrono::milliseconds(5));
        }
      }
      Json r = Json::object();
      r.set("id", j["id"]);
      r.set("events", kept);
      r.set("rounds_run", (long long)done);
      r.set("rounds_recorded_suspicious", (long long)suspicious);
      g_out << r.dump() << "\n";
      g_out.flush();
      continue;
    }
    if (t == "u8") runTypedNoBlocks<unsigned char>(sc, leaf);
    else if (t == "i16") runTypedNoBlocks<short>(sc, leaf);
    else if (t == "i32") runTyped<int>(sc, leaf);
    else if (t == "u32") runTyped<unsigned>(sc, leaf);
    else if (t == "i64") runTyped<long>(sc, leaf);
    else if (t == "ll") runTyped<long long>(sc, leaf);
    else if (t == "ull") runTyped<unsigned long long>(sc, leaf);
    else runTyped<size_t>(sc, leaf);

    if (prefill > 0) {
      releasedGen = myGen;
      auto t0 = std::chrono::steady_clock::now();
      while (prefillDone.load() < prefill && std::chrono::duration_cast<std::chrono::milliseconds>(std::chrono::steady_clock::now() - t0).count() < 5000) {
        // help the scheduler: on backends where queued tasks only run when somebody waits
        parallel_for(2, [&](int) {});
      }
    }
    writeResult(j["id"], collect(leaf), nullptr);
  }
  freeHuge();
  if (getenv("VERIF_PF_DEBUG")) fprintf(stderr, "hook point calls: %ld\n", g_pointCalls.load());
  g_out.flush();
  _exit(0);   // no static destructors: the tasking system may still hold queued helper tasks
}
