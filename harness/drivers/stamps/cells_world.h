// World of the conformance driver for spec/utility/StampCells.tla (property C19, TimeStamp as
// a value type on one thread).  Interprets the actions of the specification on
// real rkcommon TimeStamp objects (heap-allocated, so construction and
// destruction are actions of the history) and reports, after every step,
//   vals    the value each readable stamp carries (operator size_t), as two
//           limbs base 2^30 ([-1,0] for an empty or moved-from cell, which is
//           not read)
//   ranks   the dense rank of each readable cell's value among them, computed with
//           comparisons written directly on the TimeStamp objects (a < b, a == b)
//           (0 = empty, -1 = moved-from: the driver's own books)
//   newmax  whether the cell written by this step now carries a value above
//           every value read earlier in this history
// It never decides: ranks / newmax are compared with what TLC computed
// (replay), vals are validated by TLC (StampCellsTrace).
#pragma once
#include <set>
#include <stdexcept>
#include <string>
#include "driver.h"
#include "rkcommon/utility/TimeStamp.h"

using rkcommon::utility::TimeStamp;
using vj::Json;

struct CellsWorld
{
  static const int MAXC = 8;
  int nc{3};
  TimeStamp *cell[MAXC + 1];
  bool moved[MAXC + 1];
  bool hiValid{false};
  size_t hi{0};

  explicit CellsWorld(const Json &hist)
  {
    for (int i = 0; i <= MAXC; ++i) { cell[i] = nullptr; moved[i] = false; }
    if (hist.has("nc")) nc = (int)hist["nc"].num();
    if (nc > MAXC) nc = MAXC;
  }
  ~CellsWorld()
  {
    for (int i = 1; i <= MAXC; ++i) delete cell[i];
  }

  bool ok(long long s) const { return s >= 1 && s <= nc; }
  bool holds(long long s) const { return ok(s) && cell[s] != nullptr; }
  bool readable(long long s) const { return holds(s) && !moved[s]; }

  static Json limbs(size_t v)
  {
    if ((v >> 30) >= (size_t(1) << 31)) throw std::runtime_error("stamp value beyond 2^61 cannot be logged");
    Json a = Json::array();
    a.push(Json((long long)(v >> 30)));
    a.push(Json((long long)(v & ((size_t(1) << 30) - 1))));
    return a;
  }
  static Json skipped()
  {
    Json o = Json::object();
    o.set("skipped", true);
    return o;
  }

  // observation after a step; `target` = cell written by the step (0: none)
  Json observe(int target)
  {
    size_t v[MAXC + 1];
    std::set<size_t> distinct;
    for (int s = 1; s <= nc; ++s)
      if (readable(s)) {
        const TimeStamp &ts = *cell[s];
        v[s] = size_t(ts);   // operator size_t
        distinct.insert(v[s]);
      }
    Json vals = Json::array(), ranks = Json::array();
    for (int s = 1; s <= nc; ++s) {
      if (!readable(s)) {
        Json b = Json::array();
        b.push(Json(-1));
        b.push(Json(0));
        vals.push(b);
        ranks.push(Json(holds(s) ? -1 : 0));
      } else {
        vals.push(limbs(v[s]));
        // rank through comparisons written on the TimeStamp objects themselves (a < b, a == b: what user code writes;
        // today they go through operator size_t, tomorrow perhaps through operators of TimeStamp's own)
        long long r = 1;
        for (int u = 1; u <= nc; ++u) {
          if (!readable(u) || !(*cell[u] < *cell[s])) continue;
          bool seen = false;   // count each distinct smaller value once
          for (int u2 = 1; u2 < u; ++u2)
            if (readable(u2) && *cell[u2] == *cell[u]) seen = true;
          if (!seen) ++r;
        }
        ranks.push(Json(r));
      }
    }
    bool newmax = target != 0 && readable(target) && (!hiValid || v[target] > hi);
    for (int s = 1; s <= nc; ++s)
      if (readable(s) && (!hiValid || v[s] > hi)) { hi = v[s]; hiValid = true; }
    Json o = Json::object();
    o.set("ranks", ranks);
    o.set("newmax", newmax);
    o.set("vals", vals);
    return o;
  }

  Json step(const Json &act)
  {
    const std::string &a = act["a"].str();
    const Json &arg = act["arg"];
    long long s = arg["s"].num();
    long long t = arg.has("t") ? arg["t"].num() : 0;
    if (a == "Create") {
      if (!ok(s) || holds(s)) return skipped();
      cell[s] = new TimeStamp();
      moved[s] = false;
      return observe((int)s);
    }
    if (a == "Renew") {
      if (!holds(s)) return skipped();
      cell[s]->renew();
      moved[s] = false;
      return observe((int)s);
    }
    if (a == "Destroy") {
      if (!holds(s)) return skipped();
      delete cell[s];
      cell[s] = nullptr;
      moved[s] = false;
      return observe(0);
    }
    if (a == "CopyCtor" || a == "MoveCtor") {
      if (!ok(s) || holds(s) || !readable(t)) return skipped();
      if (a == "CopyCtor") {
        const TimeStamp &src = *cell[t];
        cell[s] = new TimeStamp(src);
      } else {
        cell[s] = new TimeStamp(std::move(*cell[t]));
        moved[t] = true;
      }
      moved[s] = false;
      return observe((int)s);
    }
    if (a == "CopyAssign" || a == "MoveAssign") {
      if (!holds(s) || !readable(t)) return skipped();
      TimeStamp &dst = *cell[s];
      TimeStamp &src = *cell[t];   // may alias dst (self-assignment)
      if (a == "CopyAssign") {
        const TimeStamp &csrc = src;
        dst = csrc;
        moved[s] = false;
      } else {
        dst = std::move(src);
        moved[s] = false;
        moved[t] = true;   // also for s == t: a self-moved stamp is not read again
      }
      return observe((int)s);
    }
    Json o = Json::object();
    o.set("ranks", "unknown-action");
    return o;
  }
};
