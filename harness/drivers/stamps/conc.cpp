// Multi-threaded burst driver for spec/utility/StampsTrace.tla (property C19,
// TimeStamp under concurrency).  std::thread only - no rkcommon tasking - so a
// ThreadSanitizer build is sound.
//
// Action Burst{threads, ops, seed, shared, sync, out}: the main thread (t = 0)
// creates `shared` stamps that nobody changes afterwards; then `threads` threads
// start together (and, with sync > 0, meet again at a barrier every `sync`
// operations, so that they keep hitting the counter at the same time even on a
// loaded machine) and each performs `ops` operations on its own stamps (with
// `pre`: after the counter has been moved by that many draws, so that the burst
// crosses 2^31 or 2^32):
//   create / renew                       -> Fresh event with the stamp's value
//   copy construction / copy assignment
//   move construction / move assignment  -> Copy event with the value of the
//                                           copy and the value read from the
//                                           source (own or shared-immutable, so
//                                           the reading is unambiguous; for a
//                                           move it is read before the move)
// Events are logged into per-thread buffers (no synchronisation, no I/O while
// the threads run) and written to `out` afterwards, one ndjson line per event:
//   {"e":"Fresh","t":t,"seq":k,"op":"create"|"renew","v":[hi,lo]}
//   {"e":"Copy","t":t,"seq":k,"how":...,"v":[hi,lo],"src":[hi,lo]}
// (size_t values as two limbs, base 2^30).  The observation returned to the
// orchestrator holds only the threads' own counts.  The driver never decides.
//
// Action Relay{threads, segs:[[t,n],...], out}: a SYNCHRONISED cross-thread relay
// (spec/utility/StampsRelayTrace.tla).  `threads` long-lived threads exist from the
// start; segment i = "thread t creates / renews n stamps", and segment i + 1 starts
// only after segment i has finished: the hand-over is an atomic turn counter
// (store-release by the thread that finished, load-acquire by the waiting ones), so
// every draw happens-before the next one in the log although the threads differ.
// The draws are logged in that order by the thread holding the turn:
//   {"e":"Draw","k":k,"seg":i,"t":t,"op":"create"|"renew","v":[hi,lo]}
// A thread that appears in no segment (or only with n = 0) never draws a stamp.
#include <atomic>
#include <cstdio>
#include <stdexcept>
#include <string>
#include <thread>
#include <vector>
#include "driver.h"
#include "rkcommon/utility/TimeStamp.h"

using rkcommon::utility::TimeStamp;
using vj::Json;

namespace {

enum Kind { CREATE, RENEW, COPY_CTOR, COPY_ASSIGN, MOVE_CTOR, MOVE_ASSIGN };
const char *kindName[] = {"create", "renew", "copy_ctor", "copy_assign", "move_ctor", "move_assign"};

struct Ev
{
  unsigned seq;
  Kind kind;
  size_t v;
  size_t src;
};

struct Rng
{
  uint64_t s;
  explicit Rng(uint64_t seed) : s(seed * 0x9E3779B97F4A7C15ull + 0x1234567ull) { next(); next(); }
  uint64_t next()
  {
    s ^= s << 13;
    s ^= s >> 7;
    s ^= s << 17;
    return s;
  }
  unsigned below(unsigned n) { return (unsigned)((next() >> 11) % n); }
};

const int SLOTS = 4;

// all threads meet; built from atomics only (ThreadSanitizer understands it)
struct Barrier
{
  int n;
  std::atomic<int> arrived{0};
  std::atomic<int> phase{0};
  explicit Barrier(int n_) : n(n_) {}
  void wait()
  {
    int p = phase.load(std::memory_order_acquire);
    if (arrived.fetch_add(1, std::memory_order_acq_rel) + 1 == n) {
      arrived.store(0, std::memory_order_relaxed);
      phase.store(p + 1, std::memory_order_release);
    } else {
      while (phase.load(std::memory_order_acquire) == p) std::this_thread::yield();
    }
  }
};

void worker(int t, long ops, long sync, uint64_t seed, const std::vector<TimeStamp *> *shared, std::atomic<int> *ready,
            std::atomic<bool> *go, Barrier *barrier, std::vector<Ev> *log)
{
  Rng rng(seed + 7919u * (unsigned)t);
  TimeStamp *slot[SLOTS] = {nullptr, nullptr, nullptr, nullptr};
  log->reserve((size_t)ops + 8);
  ready->fetch_add(1);
  while (!go->load(std::memory_order_acquire)) {}
  unsigned seq = 0;
  for (long k = 0; k < ops; ++k, ++seq) {
    if (sync > 0 && k > 0 && k % sync == 0) barrier->wait();
    int i = (int)rng.below(SLOTS);
    unsigned x = rng.below(100);
    if (!slot[i]) {
      // empty slot: construct something into it
      if (x < 60 || (shared->empty() && !slot[(i + 1) % SLOTS])) {
        slot[i] = new TimeStamp();
        const TimeStamp &r = *slot[i];
        log->push_back(Ev{seq, CREATE, size_t(r), 0});
      } else {
        // copy / move construction from an own stamp if there is one, else from a shared one
        int j = -1;
        for (int d = 1; d < SLOTS; ++d) if (slot[(i + d) % SLOTS]) { j = (i + d) % SLOTS; break; }
        if (j >= 0 && x < 75) {
          size_t sv = size_t(*slot[j]);
          slot[i] = new TimeStamp(std::move(*slot[j]));
          const TimeStamp &r = *slot[i];
          log->push_back(Ev{seq, MOVE_CTOR, size_t(r), sv});
          delete slot[j];   // the moved-from stamp is given up
          slot[j] = nullptr;
        } else {
          const TimeStamp &src = (j >= 0 && (x < 90 || shared->empty())) ? *slot[j] : *(*shared)[rng.below((unsigned)shared->size())];
          slot[i] = new TimeStamp(src);
          const TimeStamp &r = *slot[i];
          log->push_back(Ev{seq, COPY_CTOR, size_t(r), size_t(src)});
        }
      }
      continue;
    }
    if (x < 50) {
      slot[i]->renew();
      const TimeStamp &r = *slot[i];
      log->push_back(Ev{seq, RENEW, size_t(r), 0});
    } else if (x < 65) {
      int j = (int)rng.below(SLOTS);
      const TimeStamp &src = (slot[j] && x < 60) ? *slot[j]
                             : (!shared->empty() ? *(*shared)[rng.below((unsigned)shared->size())] : *slot[i]);
      size_t sv = size_t(src);
      *slot[i] = src;   // copy assignment (possibly self)
      const TimeStamp &r = *slot[i];
      log->push_back(Ev{seq, COPY_ASSIGN, size_t(r), sv});
    } else if (x < 75) {
      int j = (int)rng.below(SLOTS);
      if (slot[j] && j != i) {
        size_t sv = size_t(*slot[j]);
        *slot[i] = std::move(*slot[j]);
        const TimeStamp &r = *slot[i];
        log->push_back(Ev{seq, MOVE_ASSIGN, size_t(r), sv});
        delete slot[j];
        slot[j] = nullptr;
      } else {
        TimeStamp tmp;   // a stamp with automatic storage
        const TimeStamp &r = tmp;
        log->push_back(Ev{seq, CREATE, size_t(r), 0});
      }
    } else if (x < 90) {
      delete slot[i];
      slot[i] = nullptr;
      slot[i] = new TimeStamp();
      const TimeStamp &r = *slot[i];
      log->push_back(Ev{seq, CREATE, size_t(r), 0});
    } else {
      delete slot[i];
      slot[i] = nullptr;
      --seq;   // nothing to log; keep seq dense
    }
  }
  for (int i = 0; i < SLOTS; ++i) delete slot[i];
}

struct RelayEv
{
  int seg;
  int t;
  Kind kind;
  size_t v;
};

// thread t of a relay: waits for its segments, draws, hands over
void relayWorker(int t, const std::vector<std::pair<int, long>> *segs, std::atomic<long> *turn, std::vector<RelayEv> *log)
{
  TimeStamp *mine = nullptr;   // created by this thread's first draw, then renewed / replaced
  const long S = (long)segs->size();
  for (;;) {
    long i = turn->load(std::memory_order_acquire);
    if (i >= S) break;
    if (i < 0 || (*segs)[(size_t)i].first != t) {
      std::this_thread::yield();
      continue;
    }
    const long n = (*segs)[(size_t)i].second;
    for (long d = 0; d < n; ++d) {
      if (!mine) {
        mine = new TimeStamp();
        const TimeStamp &r = *mine;
        log->push_back(RelayEv{(int)i + 1, t, CREATE, size_t(r)});
      } else if ((d + i) % 5 == 4) {
        TimeStamp tmp;           // a stamp with automatic storage
        const TimeStamp &r = tmp;
        log->push_back(RelayEv{(int)i + 1, t, CREATE, size_t(r)});
      } else {
        mine->renew();
        const TimeStamp &r = *mine;
        log->push_back(RelayEv{(int)i + 1, t, RENEW, size_t(r)});
      }
    }
    turn->store(i + 1, std::memory_order_release);   // hand-over
  }
  delete mine;
}

void limbs(FILE *f, size_t v)
{
  if ((v >> 30) >= (size_t(1) << 31)) throw std::runtime_error("stamp value beyond 2^61 cannot be logged");
  fprintf(f, "[%llu,%llu]", (unsigned long long)(v >> 30), (unsigned long long)(v & ((size_t(1) << 30) - 1)));
}

} // namespace

struct World
{
  explicit World(const Json &) {}

  Json relay(const Json &arg)
  {
    Json o = Json::object();
    int T = (int)arg["threads"].num();
    std::string out = arg["out"].str();
    std::vector<std::pair<int, long>> segs;
    size_t total = 0;
    for (size_t i = 0; i < arg["segs"].size(); ++i) {
      int t = (int)arg["segs"][i][(size_t)0].num();
      long n = (long)arg["segs"][i][(size_t)1].num();
      if (t < 1 || t > T || n < 0) throw std::runtime_error("malformed relay plan");
      segs.push_back(std::make_pair(t, n));
      total += (size_t)n;
    }
    std::vector<RelayEv> log;
    log.reserve(total + 8);   // never reallocated while the threads run (and only the turn holder appends)
    std::atomic<long> turn(-1);
    std::vector<std::thread> th;
    for (int t = 1; t <= T; ++t) th.emplace_back(relayWorker, t, &segs, &turn, &log);
    turn.store(0, std::memory_order_release);
    for (auto &x : th) x.join();
    FILE *f = fopen(out.c_str(), "w");
    if (!f) throw std::runtime_error("cannot write " + out);
    long long k = 0;
    for (const RelayEv &e : log) {
      fprintf(f, "{\"e\":\"Draw\",\"k\":%lld,\"seg\":%d,\"t\":%d,\"op\":\"%s\",\"v\":", ++k, e.seg, e.t, kindName[e.kind]);
      limbs(f, e.v);
      fprintf(f, "}\n");
    }
    if (fclose(f) != 0) throw std::runtime_error("cannot write " + out);
    o.set("threads", T);
    o.set("draws", k);
    return o;
  }

  Json step(const Json &act)
  {
    Json o = Json::object();
    if (act["a"].str() == "Relay") return relay(act["arg"]);
    if (act["a"].str() != "Burst") {
      o.set("error", "unknown-action");
      return o;
    }
    const Json &arg = act["arg"];
    int T = (int)arg["threads"].num();
    long ops = (long)arg["ops"].num();
    uint64_t seed = (uint64_t)arg["seed"].num();
    int nshared = (int)arg["shared"].num();
    long sync = arg.has("sync") ? (long)arg["sync"].num() : 0;
    // start state: the counter is first moved (by renewals of a scratch stamp on this thread, not logged) so that
    // the burst crosses a boundary of the value range, e.g. 2^31 or 2^32; `pre` = number of draws, limbs base 2^30
    unsigned long long pre = 0;
    if (arg.has("pre")) pre = ((unsigned long long)arg["pre"][(size_t)0].num() << 30) + (unsigned long long)arg["pre"][(size_t)1].num();
    if (pre > 0) {
      TimeStamp scratch;
      for (unsigned long long k = 1; k < pre; ++k) scratch.renew();
    }
    std::string out = arg["out"].str();

    std::vector<std::vector<Ev>> logs((size_t)T + 1);
    std::vector<TimeStamp *> shared;
    for (int i = 0; i < nshared; ++i) {
      shared.push_back(new TimeStamp());
      const TimeStamp &r = *shared.back();
      logs[0].push_back(Ev{(unsigned)i, CREATE, size_t(r), 0});
    }
    std::atomic<int> ready(0);
    std::atomic<bool> go(false);
    std::vector<std::thread> th;
    Barrier barrier(T);
    for (int t = 1; t <= T; ++t) th.emplace_back(worker, t, ops, sync, seed, &shared, &ready, &go, &barrier, &logs[(size_t)t]);
    while (ready.load() < T) std::this_thread::yield();
    go.store(true, std::memory_order_release);
    for (auto &x : th) x.join();
    for (auto *p : shared) delete p;

    FILE *f = fopen(out.c_str(), "w");
    if (!f) throw std::runtime_error("cannot write " + out);
    Json fresh = Json::array();
    long long copies = 0, total = 0;
    for (int t = 0; t <= T; ++t) {
      long long nf = 0;
      for (const Ev &e : logs[(size_t)t]) {
        ++total;
        if (e.kind == CREATE || e.kind == RENEW) {
          ++nf;
          fprintf(f, "{\"e\":\"Fresh\",\"t\":%d,\"seq\":%u,\"op\":\"%s\",\"v\":", t, e.seq, kindName[e.kind]);
          limbs(f, e.v);
          fprintf(f, "}\n");
        } else {
          ++copies;
          fprintf(f, "{\"e\":\"Copy\",\"t\":%d,\"seq\":%u,\"how\":\"%s\",\"v\":", t, e.seq, kindName[e.kind]);
          limbs(f, e.v);
          fprintf(f, ",\"src\":");
          limbs(f, e.src);
          fprintf(f, "}\n");
        }
      }
      fresh.push(Json(nf));
    }
    if (fclose(f) != 0) throw std::runtime_error("cannot write " + out);
    o.set("threads", T);
    o.set("fresh", fresh);
    o.set("copies", copies);
    o.set("events", total);
    return o;
  }
};

int main(int argc, char **argv)
{
  return vdrv::run<World>(argc, argv);
}
