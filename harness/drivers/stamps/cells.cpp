// Conformance driver for spec/utility/StampCells.tla (property C19, TimeStamp as a value type): see cells_world.h
#include "cells_world.h"

int main(int argc, char **argv)
{
  return vdrv::run<CellsWorld>(argc, argv);
}
