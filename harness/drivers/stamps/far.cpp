// Conformance driver for spec/utility/FarStamps.tla (property C19, "far stamps"):
// histories in which the process-wide stamp counter advances by 2^31 .. 2^32+1
// between two things the contract relates (an observer's previous poll and the
// next notification; two TimeStamp values that are compared).  Stamps are
// size_t: such distances are inside the statement.
//
// The World is the product of the observers World and the TimeStamp-cells World
// (the actions of the two specifications have disjoint names) plus
//   Advance{cls, dist:[hi,lo]}   draw dist-1 fresh values (limbs base 2^30, computed
//                                by the specification) by renewing one scratch
//                                TimeStamp in a tight loop on this thread, so that
//                                the next value handed out lies exactly `dist` above
//                                the last one handed out before the action
// Self-check for the orchestrator (not an observable of the contract): the first
// and the last value the scratch stamp carried and the number of draws, so that it
// can verify that the advance really happened.  The driver never decides.
#include <set>
#include <stdexcept>
#include <string>
#include "../observers/world.h"
#include "cells_world.h"

struct FarWorld
{
  ObserversWorld observers;
  CellsWorld cells;
  rkcommon::utility::TimeStamp scratch;

  explicit FarWorld(const Json &hist) : observers(hist), cells(hist) {}

  static bool isCellAction(const std::string &a)
  {
    return a == "Create" || a == "Renew" || a == "Destroy" || a == "CopyCtor" || a == "MoveCtor" || a == "CopyAssign" || a == "MoveAssign";
  }

  Json step(const Json &act)
  {
    const std::string &a = act["a"].str();
    if (a == "Advance") {
      const Json &d = act["arg"]["dist"];
      const unsigned long long dist = ((unsigned long long)d[(size_t)0].num() << 30) + (unsigned long long)d[(size_t)1].num();
      Json o = Json::object();
      if (dist < 2) {
        o.set("skipped", true);
        return o;
      }
      const unsigned long long draws = dist - 1;
      scratch.renew();
      const rkcommon::utility::TimeStamp &r = scratch;
      const size_t first = size_t(r);
      for (unsigned long long k = 1; k < draws; ++k) scratch.renew();
      const size_t last = size_t(r);
      o.set("ret", "void");
      o.set("first", CellsWorld::limbs(first));
      o.set("last", CellsWorld::limbs(last));
      o.set("draws", CellsWorld::limbs((size_t)draws));
      return o;
    }
    if (isCellAction(a)) return cells.step(act);
    return observers.step(act);
  }
};

int main(int argc, char **argv)
{
  return vdrv::run<FarWorld>(argc, argv);
}
